"""C19 bounded driver: exponent stripping preserves the value and survives
per-tensor scales 1e-100 .. 1e100.

Concrete (float64) cases: strip_exponent cannot run on polynomial arrays.
Every input tensor t is  K_t * 10**E_t  with K_t an integer array with entries in
{1..5} (all positive, so the result is never zero and there is no cancellation)
and E_t a per-tensor decimal scale from {-100,-37,0,37,100}; in *slab* cases the
scale additionally depends on the value of ONE sliced inner index (each slice of
the tensor has its own scale in {-100,0,100}) so that the per-slice
(mantissa, exponent) pairs that are added have exponents hundreds of decades
apart.

Oracle (log domain, never forms m*10**e): the exact integer contraction R of the
K_t (Python integers, dense sum over all index assignments, independent of
cotengra) and the exact decimal exponent  sum_t E_t;  required:
  * mantissa and exponent finite (numpy.isfinite),
  * mantissa > 0 wherever R > 0 (sign; R is always > 0 here),
  * | log10(m) + e - (log10(R) + sum E) | <= 1e-9 elementwise,
  * scale-0 cases: m * 10**e equals the plain (unstripped) contraction to 1e-12 relative,
  * single-tensor expressions return (value, 0.0).
"""

from __future__ import annotations

import itertools
import math
import random
import time
import warnings

import numpy as np

from ..common import Report, pmap, seed, deadline
from .. import scope

MODULE = "vt.props.c19_bounded"
MAX_VIOLATIONS = 5
SCALES = (-100, -37, 0, 37, 100)
OFF = 100
TOL = 1e-9


# --------------------------------------------------------------------------
# arrays and the exact reference
# --------------------------------------------------------------------------
def _int_arrays(inputs, sizes, sd):
    rng = np.random.default_rng(sd)
    return [rng.integers(1, 6, size=tuple(sizes[ix] for ix in t)) for t in inputs]


def _exp_arrays(inputs, sizes, scales, slab):
    """Integer decimal exponent of every entry of every tensor."""
    out = []
    for i, t in enumerate(inputs):
        shape = tuple(sizes[ix] for ix in t)
        E = np.full(shape, int(scales[i]), dtype=np.int64)
        if slab is not None and str(i) in slab["exps"]:
            ix = slab["ix"]
            exps = slab["exps"][str(i)]
            # the scale of a slab is given by the value of index ix (first axis carrying it; for a repeated
            # index only diagonal entries ever contribute, and there all its axes agree)
            ax = t.index(ix)
            sh = [1] * len(t)
            sh[ax] = len(exps)
            E = np.broadcast_to(np.asarray(exps, dtype=np.int64).reshape(sh), shape).copy()
        out.append(E)
    return out


def _dense_exact(inputs, output, sizes, Ks, Es):
    """Exact integer result of contracting K*10**(E+OFF) (Python ints)."""
    inds = sorted({ix for t in inputs for ix in t})
    oshape = tuple(sizes[ix] for ix in output)
    out = np.zeros(oshape, dtype=object)
    for idx in np.ndindex(*oshape):
        out[idx] = 0
    for vals in itertools.product(*[range(sizes[ix]) for ix in inds]):
        asg = dict(zip(inds, vals))
        p = 1
        for t, K, E in zip(inputs, Ks, Es):
            pos = tuple(asg[ix] for ix in t)
            k = int(K[pos]) if t else int(K)
            e = int(E[pos]) if t else int(E)
            p *= k * 10 ** (e + OFF)
        oidx = tuple(asg[ix] for ix in output)
        out[oidx] += p
    return out


def _ref_log10(R, ntensors):
    lg = np.empty(R.shape, dtype=float)
    for idx in np.ndindex(*R.shape):
        lg[idx] = math.log10(R[idx]) - OFF * ntensors
    return lg


def _float_arrays(Ks, Es):
    return [K.astype(float) * np.power(10.0, E.astype(float)) for K, E in zip(Ks, Es)]


# --------------------------------------------------------------------------
# one case
# --------------------------------------------------------------------------
def _build_tree(case):
    from cotengra import ContractionTree

    inputs = [tuple(t) for t in case["inputs"]]
    output = tuple(case["output"])
    sizes = case["sizes"]
    tree = ContractionTree.from_path(inputs, output, dict(sizes), ssa_path=[tuple(p) for p in case["ssa"]])
    for ix in case["sliced"]:
        tree.remove_ind_(ix)
    return tree


def _check_pair(m, e, ref_lg, what, wide_output=False):
    if isinstance(m, tuple):
        return f"{what}: mantissa is a tuple"
    m = np.asarray(m, dtype=float)
    try:
        ef = float(e)
    except Exception:  # noqa: BLE001
        return f"{what}: exponent {e!r} is not a scalar"
    if not np.isfinite(ef):
        return f"{what}: exponent not finite ({ef})"
    if not np.all(np.isfinite(m)):
        return f"{what}: mantissa not finite"
    if m.shape != ref_lg.shape:
        return f"{what}: mantissa shape {m.shape} != reference {ref_lg.shape}"
    if wide_output and ref_lg.size:
        # output-slab cases: the exact output spans hundreds of decades; one scalar exponent cannot represent
        # entries more than ~300 decades below the largest one: those may underflow to 0 (but not go negative)
        big = ref_lg >= float(np.max(ref_lg)) - 290.0
        if not np.all(m >= 0):
            return f"{what}: mantissa has negative entries where the exact result is positive"
        if not np.all(m[big] > 0):
            return f"{what}: mantissa is zero for entries within 290 decades of the largest one"
        with np.errstate(all="ignore"):
            lg = np.log10(m[big]) + ef
        err = float(np.max(np.abs(lg - ref_lg[big])))
        if not (err <= TOL):
            return f"{what}: log10(m)+e differs from the exact value by {err:.3g} decades"
        return None
    if not np.all(m > 0):
        return f"{what}: mantissa has zero/negative entries where the exact result is positive"
    with np.errstate(all="ignore"):
        lg = np.log10(m) + ef
    err = float(np.max(np.abs(lg - ref_lg))) if lg.size else 0.0
    if not (err <= TOL):
        return f"{what}: log10(m)+e differs from the exact value by {err:.3g} decades"
    return None


def _exec(case, cache=None):
    """-> (status, message, info) ; status 'ok' | 'fail' | 'skip'."""
    import cotengra as ctg

    inputs = [tuple(t) for t in case["inputs"]]
    output = tuple(case["output"])
    sizes = case["sizes"]
    n = len(inputs)
    scales = case["scales"]
    slab = case.get("slab")
    Ks = _int_arrays(inputs, sizes, case["seed"])
    Es = _exp_arrays(inputs, sizes, scales, slab)
    if slab is None and cache is not None and "lgR" in cache:
        ref_lg = cache["lgR"] + float(sum(scales))
    else:
        if slab is None:
            R = _dense_exact(inputs, output, sizes, Ks, [np.zeros_like(E) for E in Es])
            lgR = _ref_log10(R, n)
            if cache is not None:
                cache["lgR"] = lgR
            ref_lg = lgR + float(sum(scales))
        else:
            ref_lg = _ref_log10(_dense_exact(inputs, output, sizes, Ks, Es), n)
    arrays = _float_arrays(Ks, Es)
    opts = dict(case.get("opts") or {})
    with warnings.catch_warnings():
        warnings.simplefilter("ignore")
        if n == 1:
            try:
                res = ctg.array_contract(arrays, inputs, output, strip_exponent=True)
            except Exception as e:  # noqa: BLE001
                return "fail", f"array_contract(single tensor, strip_exponent=True) raised {type(e).__name__}: {str(e)[:120]}", {}
            if not (isinstance(res, tuple) and len(res) == 2):
                return "fail", f"single tensor: did not return (value, exponent) but {type(res).__name__}", {}
            m, e = res
            if not (isinstance(e, float) and e == 0.0):
                return "fail", f"single tensor: exponent is {e!r}, documented 0.0", {}
            msg = _check_pair(m, e, ref_lg, "single tensor")
            return ("ok", "", {}) if msg is None else ("fail", msg, {})
        try:
            tree = _build_tree(case)
        except Exception as e:  # noqa: BLE001  building / slicing the tree is C01/C06's subject
            return "skip", f"tree construction raised {type(e).__name__}", {}
        info = {"nslices": int(tree.multiplicity)}
        api = case.get("api", "tree")
        try:
            if api == "tree":
                res = tree.contract(arrays, strip_exponent=True, **opts)
            elif api == "array_contract_tree":
                res = ctg.array_contract(arrays, inputs, output, optimize=tree, strip_exponent=True, **opts)
            elif api == "array_contract_path":
                res = ctg.array_contract(arrays, inputs, output, optimize=tuple(tuple(p) for p in tree.get_path()),
                                         strip_exponent=True, **opts)
            elif api == "einsum":
                eq = ",".join("".join(t) for t in inputs) + "->" + "".join(output)
                res = ctg.einsum(eq, *arrays, optimize=tuple(tuple(p) for p in tree.get_path()), strip_exponent=True, **opts)
            else:
                return "skip", f"unknown api {api}", {}
        except Exception as e:  # noqa: BLE001
            return "fail", f"{api}(strip_exponent=True) raised {type(e).__name__}: {str(e)[:120]}", info
        if not (isinstance(res, tuple) and len(res) == 2):
            return "fail", f"{api}(strip_exponent=True) did not return (mantissa, exponent) but {type(res).__name__}", info
        m, e = res
        msg = _check_pair(m, e, ref_lg, api, wide_output=bool(slab) and slab["ix"] in output)
        if msg is not None:
            return "fail", msg, info
        if slab is None and all(s == 0 for s in scales):
            try:
                plain = np.asarray(tree.contract(arrays, **opts), dtype=float)
            except Exception as e2:  # noqa: BLE001
                return "fail", f"plain contraction raised {type(e2).__name__}: {str(e2)[:100]}", info
            val = np.asarray(m, dtype=float) * 10.0 ** float(e)
            if plain.shape != val.shape or not np.all(np.abs(val - plain) <= 1e-12 * np.abs(plain)):
                return "fail", f"{api}: scale 0: m*10**e differs from the plain contraction by more than 1e-12 relative", info
            info["plain_compared"] = 1
        return "ok", "", info


# --------------------------------------------------------------------------
# enumeration
# --------------------------------------------------------------------------
def _sliced_sets(inputs, output, max_k=2):
    inds = sorted({ix for t in inputs for ix in t})
    sets = [()]
    for k in range(1, max_k + 1):
        sets.extend(itertools.combinations(inds, k))
    return sets


def _classify_sliced(sl, output):
    if not sl:
        return "none"
    o = [ix in output for ix in sl]
    return "output" if all(o) else ("inner" if not any(o) else "both")


_OPTS = (
    {},
    {"prefer_einsum": True},
    {"implementation": "cotengra"},
    {"implementation": "autoray"},
    {"implementation": "autoray", "prefer_einsum": True},
)


def _sig(case, msg):
    eq = ",".join(case["inputs"]) + "->" + case["output"]
    s = f"C19 {eq} sizes {sorted(case['sizes'].items())} tree {case['ssa']} sliced {case['sliced']} scales {case['scales']}"
    if case.get("slab"):
        s += f" slab {case['slab']['ix']}:{sorted(case['slab']['exps'].items())}"
    short = msg.split(" by ")[0].split(" raised ")[0] + (" raised " + msg.split(" raised ")[1].split(":")[0] if " raised " in msg else "")
    return s + f" [{case.get('api', 'tree')}{case.get('opts') or ''}]: {short}"


def _work(item):
    """item = (inputs, output, sizes, trees, scale_combos or ('sample', k), slab_count, seed)"""
    inputs, output, sizes, trees, combos, nslab, sd = item
    rng = random.Random(sd)
    n = len(inputs)
    ins = ["".join(t) for t in inputs]
    out = "".join(output)
    nexec = 0
    keys, viols, samples = [], [], []
    fired = {}
    cache = {}
    kseed = sd % 100003
    if combos[0] == "all":
        scale_list = list(itertools.product(SCALES, repeat=n))
    else:
        scale_list = [tuple(rng.choice(SCALES) for _ in range(n)) for _ in range(combos[1])]
        scale_list.append((100,) * n)
        scale_list.append((-100,) * n)
        scale_list.append((0,) * n)
    sets = _sliced_sets(inputs, output) if n > 1 else [()]
    ci = 0
    for ssa in trees:
        for sl in sets:
            cls = _classify_sliced(sl, output)
            # slab cases: the per-slice scale pattern on every tensor that carries a sliced inner index
            slabs = [None]
            inner = [ix for ix in sl if ix not in output]
            if inner and nslab:
                ix = inner[0]
                carriers = [i for i, t in enumerate(inputs) if ix in t]
                d = sizes[ix]
                for _ in range(nslab):
                    exps = {str(i): [rng.choice((-100, 0, 100)) for _ in range(d)] for i in carriers}
                    slabs.append({"ix": ix, "exps": exps})
                # the extreme pattern: all carriers -100 on the first slice, +100 on the others
                slabs.append({"ix": ix, "exps": {str(i): [-100] + [100] * (d - 1) for i in carriers}})
            outer = [ix for ix in sl if ix in output]
            if outer and nslab:
                # output slab: every slice of a sliced OUTPUT index has its own scale -> the chunks that
                # gather_slices rescales to a common exponent are hundreds of decades apart
                ix = outer[0]
                carriers = [i for i, t in enumerate(inputs) if ix in t]
                d = sizes[ix]
                slabs.append({"ix": ix, "exps": {str(i): [rng.choice((-100, 0, 100)) for _ in range(d)] for i in carriers}})
                slabs.append({"ix": ix, "exps": {str(i): [100] * (d - 1) + [-100] for i in carriers}})
            for slab in slabs:
                sl_scales = scale_list if slab is None else [tuple(rng.choice(SCALES) for _ in range(n)) for _ in range(2)]
                for scales in sl_scales:
                    ci += 1
                    if n == 1:
                        api = "single"
                    else:
                        api = "tree" if ci % 4 else ("array_contract_tree" if (ci // 4) % 2 or sl else ("array_contract_path" if (ci // 8) % 2 else "einsum"))
                    case = {"inputs": ins, "output": out, "sizes": sizes, "ssa": [list(p) for p in ssa], "sliced": list(sl),
                            "scales": list(scales), "seed": kseed, "api": api, "opts": _OPTS[ci % len(_OPTS)] if n > 1 else {}}
                    if slab is not None:
                        case["slab"] = slab
                    st, msg, info = _exec(case, cache if slab is None else None)
                    if st == "skip":
                        fired["skipped: tree construction/slicing raised (C01/C06 subject)"] = fired.get("skipped: tree construction/slicing raised (C01/C06 subject)", 0) + 1
                        continue
                    nexec += 1
                    f = f"strip_exponent {api} sliced={cls}" + ((" output-slab" if slab["ix"] in output else " inner-slab") if slab else "")
                    fired[f] = fired.get(f, 0) + 1
                    tot = sum(scales) if slab is None else None
                    if tot is not None and abs(tot) > 307:
                        fired["plain float64 result not representable (|sum of scales| > 307)"] = fired.get("plain float64 result not representable (|sum of scales| > 307)", 0) + 1
                    if info.get("plain_compared"):
                        fired["scale-0 comparison with the plain contraction"] = fired.get("scale-0 comparison with the plain contraction", 0) + 1
                    if n > 1:
                        keys.append(f"{ins}|{out}|{sorted(sizes.items())}|{ssa}|{sl}|{scales}|{slab}")
                    if st == "fail" and len(viols) < 20:
                        viols.append((_sig(case, msg), case, msg))
                    if not samples and sl and any(scales) and n > 2:
                        samples.append({k: case[k] for k in ("inputs", "output", "ssa", "sliced", "scales", "api")})
    return nexec, keys, viols, samples, fired


# --------------------------------------------------------------------------
# driver
# --------------------------------------------------------------------------
_FIXED = [
    (("ab", "bc"), "ac"), (("ab", "bc"), ""), (("ab", "ab"), "ab"), (("ab", "ab"), "a"), (("a", "b"), "ab"), (("aab", "bc"), "ca"),
    (("ab", "bc", "ca"), ""), (("ab", "bc", "cd"), "ad"), (("ab", "bc", "cd"), "da"), (("ab", "ab", "ab"), "a"), (("ab", "ab", "ab"), "ba"),
    (("ab", "b", "bc"), "ac"), (("ab", "cd", "bc"), "ad"), (("a", "b", "c"), "cab"), (("abc", "abc", "c"), "b"), (("ab", "", "bc"), "ac"),
    (("abb", "bc", "ca"), "b"), (("ab", "ac", "ad"), "bcd"), (("ab", "ac", "ad"), ""),
]
_FIXED4 = [
    (("ab", "bc", "cd", "da"), ""), (("ab", "bc", "cd", "de"), "ae"), (("ab", "ab", "bc", "bc"), "ac"), (("ab", "bc", "cd", "bd"), "ad"),
    (("abc", "cd", "de", "ea"), "b"), (("ab", "bc", "cd", "de", "ea"), ""), (("ab", "bc", "cd", "de", "ef"), "fa"), (("ab", "ab", "ab", "ab", "ab"), "ab"),
]


def _sizes_for(inputs, rng, allow3=True):
    syms = sorted({s for t in inputs for s in t})
    sizes = {s: 2 for s in syms}
    if allow3 and syms and rng.random() < 0.5:
        sizes[rng.choice(syms)] = 3
    return sizes


def _base_networks(n, count, rng):
    """seeded, feature-stratified sample of Net(n,3,2) (every structural feature several times)"""
    pool = list(scope.networks(n, 3, 2))
    rng.shuffle(pool)
    want = ["hyper", "output", "repeated", "scalar", "single-tensor-index", "disconnected"]
    got = {w: 0 for w in want}
    out = []
    for inputs, output in pool:
        f = scope.features(inputs, output)
        if any(got[w] < max(3, count // 8) for w in f if w in got) or len(out) < count // 2:
            out.append((inputs, output))
            for w in f:
                if w in got:
                    got[w] += 1
        if len(out) >= count:
            break
    return out


def run_bounded(rep: Report, tier: str) -> None:
    quick = tier == "quick"
    rng = random.Random(seed() * 15485863 + 19)
    state = {"viols": [], "deadline": deadline(tier, 240, 25 * 60), "timed_out": False}
    rep.rule = (
        "a case is (network, index sizes, contraction tree, set of sliced indices, per-tensor decimal scales [, per-slice slab "
        "scales], API, contraction options) on float64 arrays K*10**scale with K integer in 1..5; non-trivial: at least two "
        "tensors (the max|x| normalisation executes at least once); distinct = distinct (network, sizes, tree, sliced, scales, slab)."
    )

    def collect(name, items, exhaustive, bound, chunk=1):
        if state["timed_out"]:
            rep.scope(name, 0, False, bound + " [not started: time budget exhausted]")
            return
        n_done = 0
        for st, res in pmap(_work, items, chunk=chunk):
            if st == "crash":
                rep.crash(f"{name}: worker crashed: {res[:600]}")
                continue
            n, keys, viols, samples, fired = res
            rep.count(n)
            n_done += n
            for k in keys:
                rep.nontrivial_case(k)
            for s in samples:
                rep.sample(s)
            for f, c in fired.items():
                rep.fired(f, c)
            state["viols"].extend(viols)
            if time.time() > state["deadline"]:
                state["timed_out"] = True
                break
        rep.scope(name, n_done, exhaustive and not state["timed_out"], bound + (" [stopped at the time budget]" if state["timed_out"] else ""))

    def nets_to_items(nets, combos, nslab, trees_limit=None):
        items = []
        for inputs, output in nets:
            inputs = tuple(tuple(t) for t in inputs)
            output = tuple(output)
            n = len(inputs)
            trees = list(scope.all_trees(n))
            if trees_limit is not None and len(trees) > trees_limit:
                trees = rng.sample(trees, trees_limit)
            items.append((inputs, output, _sizes_for(inputs, rng), trees, combos, nslab, rng.randrange(2**30)))
        return items

    # single tensors
    nets1 = list(scope.networks(1, 3, 3))
    collect("single-tensor expressions (array_contract, strip_exponent=True) x all 5 scales", nets_to_items(nets1, ("all",), 0), True,
            "Net(1,3,3) complete: no-op, transpose, trace/diagonal/sum; returns (value, 0.0)", chunk=4)
    # <= 3 tensors, complete scale grid
    n2, n3 = (24, 36) if quick else (200, 400)
    fixed23 = [(tuple(tuple(t) for t in i), tuple(o)) for i, o in _FIXED]
    base = fixed23 + _base_networks(2, n2, rng) + _base_networks(3, n3, rng)
    collect("2-3 tensors x all trees x sliced sets (<= 2 indices) x ALL 5**n scale assignments (+ slab cases)",
            nets_to_items(base, ("all",), 2 if quick else 4), True,
            f"{len(base)} networks ({len(fixed23)} fixed + feature-stratified seeded sample of Net(2,3,2), Net(3,3,2)); sizes 2 (one index 3 "
            "at random); every binary tree; sliced sets: none, every single index, every pair; every per-tensor scale from "
            "{-100,-37,0,37,100}; slab cases for sliced inner indices", chunk=1)
    # 4-5 tensors sampled
    n4 = 12 if quick else 200
    fixed45 = [(tuple(tuple(t) for t in i), tuple(o)) for i, o in _FIXED4]
    samp = fixed45 + scope.sample_networks(4, 4, 2, n4, rng) + scope.sample_networks(5, 5, 2, n4 // 2, rng)
    collect("4-5 tensors: sampled trees x sliced sets x sampled scale assignments (+ slab cases)",
            nets_to_items(samp, ("sample", 6 if quick else 20), 1 if quick else 3, trees_limit=4 if quick else 12), False,
            f"{len(samp)} networks ({len(fixed45)} fixed rings/chains/hyper + seeded samples of Net(4,4,2), Net(5,5,2)); <= "
            f"{4 if quick else 12} trees each; all sliced sets of <= 2 indices; {6 if quick else 20}+3 scale assignments (incl. all +100, all -100, all 0)",
            chunk=1)

    viols = sorted(state["viols"], key=lambda v: (len(v[1]["inputs"]), len(v[1]["sliced"]), len(v[0]), v[0]))
    seen = set()
    nrep = 0
    for sig, case, msg in viols:
        cls = (msg.split(" by ")[0][:60], case.get("api"), bool(case["sliced"]), bool(case.get("slab")))
        if cls in seen:
            continue
        seen.add(cls)
        rep.violation(sig, {"module": MODULE, "case": dict(case, detail=msg)})
        nrep += 1
        if nrep >= MAX_VIOLATIONS:
            break
    rep.extra["failing_cases_total"] = len(viols)
    rep.explanation += (
        "Concrete float64 cases. tree.contract(arrays, strip_exponent=True) (3 of 4 cases) and array_contract / einsum(..., "
        "strip_exponent=True) with optimize = the sliced tree or its path (1 of 4), rotating prefer_einsum and "
        "implementation in {default, cotengra, autoray}; mantissa and exponent must be finite, the mantissa positive, and "
        "log10(m)+e within 1e-9 of log10(exact integer contraction) + sum of decimal scales (exact Python-integer reference; "
        "m*10**e is never formed). Sliced index sets cover none / inner / output / both, hyper-indices, repeated indices, "
        "scalars and disconnected networks; output-sliced cases go through gather_slices' rescaling of chunks with different "
        "exponents; slab cases give each slice of a sliced inner (resp. output) index its own scale so that the added "
        "(resp. stacked) (mantissa, exponent) pairs differ by up to 400+ decades (output entries > 290 decades below the "
        "largest may underflow to 0 there). All-zero scales are also compared with the plain contraction (1e-12 relative). "
        "check_zero=True is out of scope."
    )
    rep.assumptions.append("entries are positive (no cancellation), so the exact result is non-zero as the property requires")
    rep.assumptions.append("output tensors have a dynamic range of a few decades only (one scalar exponent per tensor cannot represent more)")
    rep.trusted_base.append("Python integer arithmetic and math.log10 on integers; numpy float64 log10/power")


def replay(case: dict):
    case = dict(case)
    case.pop("detail", None)
    st, msg, _info = _exec(case)
    if st == "fail":
        return False, f"{_sig(case, msg)} :: {msg}"
    if st == "skip":
        return True, f"skipped: {msg}"
    return True, "mantissa/exponent finite and equal to the exact log-domain reference"
