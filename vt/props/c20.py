"""C20 driver (see DESIGN.md section 3, C20)."""
from .generic import run_property, replay_property


def run(tier):
    return run_property("C20", tier)


def replay(path):
    return replay_property("C20", path)
