"""C20 bounded driver: compressed-contraction estimates equal the exact ones
when nothing is truncated (DESIGN.md section 3, C20, [T3] bullet).

For ORDINARY networks (no index repeated inside a tensor), trees, traversal
orders, compress_late in {False, True} and caps chi in {1, 2, 4, 16, huge}:

* chi = huge (>= every bond that can arise) and no leaf pre-processing
  (no index confined to one tensor unless it is an output index):
  tracker.flops == exact flops, tracker.write == exact write + sum of the input
  sizes, tracker.max_size == max(exact largest intermediate, largest input)
  (the compressed tracker counts the inputs -- reading fixed in DESIGN C20);
  the exact figures are computed here with the step rule (pf_common.simulate)
  and also read from tree.contract_stats().
* any chi, every ordinary network: max_size, peak_size, write <= their values
  at chi = huge.
* ContractionTreeCompressed: defaults of compressed_contract_stats and the
  overridden total_flops / total_write / max_size / peak_size agree with the
  explicit call; from_path keeps the order of the given path as its default
  traversal order.
* every compressed finder (hyper methods greedy-compressed, greedy-span,
  greedy-span-max, kahypar-agglom directly with sampled parameters and through
  HyperCompressedOptimizer; presets greedy-compressed / greedy-span) returns a
  complete tree whose get_path() is a valid path, for connected ordinary networks.
"""

from __future__ import annotations

import random
import time
import warnings

from ..common import Report, pmap, seed, deadline
from .. import scope
from . import pf_common as pc

MODULE = "vt.props.c20_bounded"
_DEADLINE = None
HUGE = 10**9
CHIS = (1, 2, 4, 16)
SIZE_VALUES = (2, 3, 4, 2, 3, 5)
CALL_TIMEOUT = 30.0
COMPRESSED_METHODS = ("greedy-compressed", "greedy-span", "greedy-span-max", "kahypar-agglom")
HYPER_METHODS = ("greedy-compressed", "greedy-span", "kahypar-agglom")


# --------------------------------------------------------------------------
# orders (JSON-able)
# --------------------------------------------------------------------------
def order_from_json(o):
    if o is None or isinstance(o, str):
        return o
    return scope._RankOrder({frozenset(k): v for k, v in o["rank"]})


def order_to_json(order):
    if order is None or isinstance(order, str):
        return order
    return {"rank": [[sorted(k), v] for k, v in sorted(order.rank.items(), key=lambda kv: (len(kv[0]), sorted(kv[0])))]}


def order_label(order):
    if order is None or isinstance(order, str):
        return repr(order)
    return "callable"


# --------------------------------------------------------------------------
# estimates
# --------------------------------------------------------------------------
def _guarded(fn, *a):
    try:
        return pc.with_timeout(CALL_TIMEOUT, fn, *a)
    except pc.Timeout:
        return f"did not return within {CALL_TIMEOUT:.0f} s of CPU time"


def fields(t):
    return {"flops": t.flops, "write": t.write, "max_size": t.max_size, "peak_size": t.peak_size}


class _BondWatch:
    """Largest (multi)bond size the library itself computes while simulating with
    no cap: every value HyperGraph.edges_size returns to HyperGraph.compress (the
    merged size that would be capped) and to neighborhood_compress_cost (the bond
    that would be charged a compression).  With chi equal to that value nothing
    is truncated, which is exactly the boundary of the property's claim."""

    def __enter__(self):
        import sys
        from cotengra.hypergraph import HyperGraph

        self.cls, self.orig, self.largest = HyperGraph, HyperGraph.edges_size, None
        watch = self

        def edges_size(hg, es):
            r = watch.orig(hg, es)
            if sys._getframe(1).f_code.co_name in ("compress", "neighborhood_compress_cost"):
                if watch.largest is None or r > watch.largest:
                    watch.largest = r
            return r

        HyperGraph.edges_size = edges_size
        return self

    def __exit__(self, *a):
        self.cls.edges_size = self.orig
        return False


def check_estimates(inputs, output, sd, ssa, order, late, info=None):
    """None or message.  One (network, tree, order, compress_late) case, all chi."""
    from cotengra import ContractionTree

    n = len(inputs)
    with warnings.catch_warnings():
        warnings.simplefilter("ignore")
        try:
            tree = ContractionTree.from_path(inputs, output, sd, ssa_path=ssa)
            with _BondWatch() as bw:
                big = fields(tree.compressed_contract_stats(chi=HUGE, order=order, compress_late=late))
            if bw.largest is not None:
                # the cap sits exactly on the largest bond that arises: still nothing truncated
                for chi_b in (bw.largest, bw.largest + 1):
                    at = fields(tree.compressed_contract_stats(chi=chi_b, order=order, compress_late=late))
                    if at != big:
                        return (f"chi={chi_b} (largest bond arising without a cap = {bw.largest}, so nothing is truncated): "
                                f"estimates {at} differ from the uncapped ones {big}")
                if info is not None:
                    info["boundary_checked"] = info.get("boundary_checked", 0) + 1
            if not pc.has_leaf_preprocessing(inputs, output):
                steps, leaf = pc.simulate(inputs, output, sd, ssa, reduce_leaves=True)
                tot = pc.totals(steps)
                in_sizes = []
                for t in inputs:
                    p = 1
                    for ix in t:
                        p *= sd[ix]
                    in_sizes.append(p)
                want = {"flops": tot["flops"], "write": tot["write"] + sum(in_sizes), "max_size": max(tot["size"], max(in_sizes))}
                got = {k: big[k] for k in want}
                if got != want:
                    return (f"chi=huge: tracker {got} but exact flops {tot['flops']}, exact write {tot['write']} + inputs "
                            f"{sum(in_sizes)}, max(exact max size {tot['size']}, largest input {max(in_sizes)})")
                st = tree.contract_stats()
                want2 = {"flops": st["flops"], "write": st["write"] + sum(in_sizes), "max_size": max(st["size"], max(in_sizes))}
                if got != want2:
                    return f"chi=huge: tracker {got} disagrees with tree.contract_stats() {st} (+ inputs {sum(in_sizes)}, largest {max(in_sizes)})"
                if tree.has_preprocessing():
                    return "HARNESS: tree.has_preprocessing() is True on a network classified as free of leaf pre-processing"
                if info is not None:
                    info["equal_checked"] = info.get("equal_checked", 0) + 1
            for chi in CHIS:
                f = fields(tree.compressed_contract_stats(chi=chi, order=order, compress_late=late))
                for k in ("max_size", "peak_size", "write"):
                    if f[k] > big[k]:
                        return f"chi={chi}: {k} = {f[k]} exceeds its uncapped value {big[k]}"
                if info is not None and any(f[k] != big[k] for k in ("max_size", "peak_size", "write")):
                    info["truncating"] = info.get("truncating", 0) + 1
        except Exception as e:  # noqa: BLE001
            return f"raised {type(e).__name__}: {str(e)[:100]}"
    return None


def check_compressed_class(inputs, output, sd, ssa):
    """Defaults of ContractionTreeCompressed."""
    from cotengra import ContractionTreeCompressed

    n = len(inputs)
    with warnings.catch_warnings():
        warnings.simplefilter("ignore")
        try:
            tc = ContractionTreeCompressed.from_path(inputs, output, sd, ssa_path=ssa)
            msg = pc.check_tree(tc, n)
            if msg:
                return "ContractionTreeCompressed.from_path: " + msg
            seq = [frozenset(p) for p, _l, _r in tc.traverse()]
            if seq != pc.ssa_nodes(ssa, n):
                return f"default traversal of ContractionTreeCompressed.from_path(ssa_path={list(ssa)}) does not follow the given path"
            got_ssa = tc.get_ssa_path()
            if pc.ssa_nodes(got_ssa, n) != pc.ssa_nodes(ssa, n):
                return f"get_ssa_path() = {list(got_ssa)} does not replay the given path {list(ssa)}"
            lin = tc.get_path()
            msg = pc.check_linear_path(lin, n)
            if msg:
                return f"get_path() = {list(lin)}: {msg}"
            tl = ContractionTreeCompressed.from_path(inputs, output, sd, path=lin)
            if pc.tree_pairs(tl) != pc.tree_pairs(tc) or [frozenset(p) for p, _l, _r in tl.traverse()] != seq:
                return f"from_path(path=get_path()) = {list(lin)} gives a different ordered tree"
            chi = max(sd.values()) ** 2 if sd else 1
            d = fields(tc.compressed_contract_stats())
            e = fields(tc.compressed_contract_stats(chi=chi, order="surface_order", compress_late=False))
            if d != e:
                return f"defaults of compressed_contract_stats give {d}, explicit (chi=max(size)^2={chi}, 'surface_order', compress_late=False) gives {e}"
            over = {"flops": tc.total_flops(), "write": tc.total_write(), "max_size": tc.max_size(), "peak_size": tc.peak_size()}
            if over != d:
                return f"total_flops/total_write/max_size/peak_size of the compressed tree = {over}, compressed_contract_stats() = {d}"
            steps, _ = pc.simulate(inputs, output, sd, ssa, reduce_leaves=True)
            if tc.total_flops_exact() != sum(s["flops"] for s in steps):
                return f"total_flops_exact() = {tc.total_flops_exact()} != {sum(s['flops'] for s in steps)}"
        except Exception as e:  # noqa: BLE001
            return f"raised {type(e).__name__}: {str(e)[:100]}"
    return None


# --------------------------------------------------------------------------
# finders
# --------------------------------------------------------------------------
def _finder_call(how, inputs, output, sd):
    import cotengra as ctg
    from cotengra.interface import find_tree

    k = how["kind"]
    if k == "fn":
        from cotengra.hyperoptimizers.hyper import _PATH_FNS, get_hyper_constants

        kw = dict(get_hyper_constants()[how["method"]])
        kw.update(how["params"])
        return "tree", _PATH_FNS[how["method"]](inputs, output, sd, **kw)
    if k == "hyper":
        opt = ctg.HyperCompressedOptimizer(
            methods=[how["method"]], max_repeats=2, optlib="random", parallel=False, on_trial_error="raise",
            seed=how["seed"], **({"chi": how["chi"]} if how.get("chi") else {}),
        )
        return "ctree", opt.search(inputs, output, sd)
    if k == "preset":
        if how["api"] == "acp":
            return "path", ctg.array_contract_path(inputs, output, sd, optimize=how["preset"], cache=False)
        if how["api"] == "act":
            return "tree", ctg.array_contract_tree(inputs, output, sd, optimize=how["preset"])
        return "tree", find_tree(inputs, output, sd, optimize=how["preset"])
    raise ValueError(k)


def check_finder(inputs, output, sd, how):
    n = len(inputs)
    pc.seed_all(how.get("rs", 0))
    with warnings.catch_warnings():
        warnings.simplefilter("ignore")
        try:
            what, val = pc.with_timeout(CALL_TIMEOUT, _finder_call, how, inputs, output, sd)
        except pc.Timeout:
            return f"did not return within {CALL_TIMEOUT:.0f} s of CPU time"
        except Exception as e:  # noqa: BLE001
            return f"raised {type(e).__name__}: {str(e)[:100]}"
        try:
            if what == "path":
                msg = pc.check_linear_path(val, n)
                return None if msg is None else f"returned path {[tuple(c) for c in val]}: {msg}"
            msg = pc.check_tree(val, n)
            if msg:
                return "returned tree: " + msg
            lin = val.get_path()
            msg = pc.check_linear_path(lin, n)
            if msg:
                return f"tree.get_path() = {list(lin)}: {msg}"
            ssa = val.get_ssa_path()
            msg = pc.check_ssa_path(ssa, n)
            if msg:
                return f"tree.get_ssa_path() = {list(ssa)}: {msg}"
            if what == "ctree":
                from cotengra import ContractionTreeCompressed

                if not isinstance(val, ContractionTreeCompressed):
                    return f"HyperCompressedOptimizer returned a {type(val).__name__}"
                # an ordered tree: its default order must be usable for the compressed estimate
                t = val.compressed_contract_stats(chi=HUGE)
                if t.max_size <= 0 or t.peak_size < t.max_size:
                    return f"compressed estimate of the returned tree is inconsistent: max_size {t.max_size}, peak_size {t.peak_size}"
        except Exception as e:  # noqa: BLE001
            return f"inspecting the result raised {type(e).__name__}: {str(e)[:100]}"
    return None


def how_label(how):
    k = how["kind"]
    if k == "fn":
        return f"_PATH_FNS[{how['method']!r}]"
    if k == "hyper":
        return f"HyperCompressedOptimizer(methods=[{how['method']!r}], max_repeats=2, optlib='random')" + (
            f" chi={how['chi']}" if how.get("chi") else "")
    return {"acp": "array_contract_path", "act": "array_contract_tree"}.get(how["api"], how["api"]) + f"(optimize={how['preset']!r})"


def replay(case):
    inputs, output, sd = pc.net_from_case(case)
    fam = case["family"]
    if fam == "est":
        msg = _guarded(check_estimates, inputs, output, sd, tuple(tuple(c) for c in case["ssa"]), order_from_json(case["order"]), case["late"])
        lab = f"compressed_contract_stats(order={order_label(order_from_json(case['order']))}, compress_late={case['late']}) on {pc.eq_str(inputs, output)} tree {case['ssa']}"
    elif fam == "cls":
        msg = _guarded(check_compressed_class, inputs, output, sd, tuple(tuple(c) for c in case["ssa"]))
        lab = f"ContractionTreeCompressed defaults on {pc.eq_str(inputs, output)} tree {case['ssa']}"
    else:
        msg = check_finder(inputs, output, sd, case["how"])
        lab = f"{how_label(case['how'])} on {pc.eq_str(inputs, output)}"
    return (msg is None), lab + ": " + (msg or "held")


# --------------------------------------------------------------------------
# worker
# --------------------------------------------------------------------------
def _work(item):
    name, idx, inputs, output, plan = item
    if (_DEADLINE is not None and time.time() > _DEADLINE) or pc.too_many_timeouts():
        return {"skipped": 1, "name": name}
    rng = random.Random(f"{seed()}|C20|{name}|{idx}")
    n = len(inputs)
    eq = pc.eq_str(inputs, output)
    sd = pc.random_sizes(inputs, output, SIZE_VALUES, rng)
    keys, viols, samples = [], [], []
    fires = {}
    info = {}
    n_eval = 0
    connected = pc.is_connected(inputs)
    # ---- estimates
    if plan.get("trees"):
        if plan["trees"] == "all":
            trees = list(scope.all_trees(n))
        else:
            trees = sorted({scope.random_tree_ssa(n, rng) for _ in range(plan["trees"])})
        for ssa in trees:
            nodes = pc.ssa_nodes(ssa, n)
            perm = list(range(len(nodes)))
            rng.shuffle(perm)
            orders = ["surface_order", "dfs", None, scope._RankOrder({nd: perm[i] for i, nd in enumerate(nodes)})]
            for order in orders:
                for late in (False, True):
                    if pc.too_many_timeouts():
                        break
                    msg = _guarded(check_estimates, inputs, output, sd, ssa, order, late, info)
                    n_eval += 1
                    fires["estimates: monotone in chi (+ equal at chi=huge)"] = fires.get(
                        "estimates: monotone in chi (+ equal at chi=huge)", 0) + 1
                    if n >= 3:
                        keys.append(pc.digest(f"est|{eq}|{ssa}|{order_label(order)}|{late}"))
                    if msg is not None and len(viols) < 3:
                        case = pc.net_case(inputs, output, sd)
                        case.update({"family": "est", "ssa": pc.path_json(ssa), "order": order_to_json(order), "late": late})
                        viols.append((f"C20 compressed_contract_stats(order={order_label(order)}, compress_late={late}) on {eq} sizes "
                                      f"{pc.sizes_str(sd)} tree {list(ssa)}: {msg}", case))
                    elif msg is None and idx % 89 == 7 and not samples and n >= 3:
                        case = pc.net_case(inputs, output, sd)
                        case.update({"family": "est", "ssa": pc.path_json(ssa), "order": order_to_json(order), "late": late})
                        samples.append(case)
            if pc.too_many_timeouts():
                break
            msg = _guarded(check_compressed_class, inputs, output, sd, ssa)
            n_eval += 1
            fires["ContractionTreeCompressed defaults / order kept"] = fires.get("ContractionTreeCompressed defaults / order kept", 0) + 1
            if n >= 3:
                keys.append(pc.digest(f"cls|{eq}|{ssa}"))
            if msg is not None and len(viols) < 4:
                case = pc.net_case(inputs, output, sd)
                case.update({"family": "cls", "ssa": pc.path_json(ssa)})
                viols.append((f"C20 ContractionTreeCompressed on {eq} sizes {pc.sizes_str(sd)} tree {list(ssa)}: {msg}", case))
    # ---- finders (connected ordinary networks with >= 3 tensors)
    if plan.get("finders") and connected and n >= 3:
        from cotengra.hyperoptimizers.hyper import _PATH_FNS, get_hyper_space
        import importlib.util

        have_kahypar = importlib.util.find_spec("kahypar") is not None
        rs = rng.randrange(1 << 30)
        hows = []
        for m in COMPRESSED_METHODS:
            if m not in _PATH_FNS or (m.startswith("kahypar") and not have_kahypar):
                continue
            for _ in range(plan["finders"]):
                params = pc.sample_space(get_hyper_space()[m], rng)
                if m == "kahypar-agglom" and rng.random() < 0.5:
                    params["groupsize"] = rng.choice((2, 3))
                hows.append({"kind": "fn", "method": m, "params": params})
        for m in HYPER_METHODS:
            if m.startswith("kahypar") and not have_kahypar:
                continue
            hows.append({"kind": "hyper", "method": m, "seed": rng.randrange(1 << 30), "chi": rng.choice((None, 2, 4, 16))})
        for preset in ("greedy-compressed", "greedy-span"):
            hows.append({"kind": "preset", "preset": preset, "api": rng.choice(("acp", "act", "find_tree"))})
        for how in hows:
            if pc.too_many_timeouts():
                break
            how["rs"] = rs
            msg = check_finder(inputs, output, sd, how)
            n_eval += 1
            lab = how_label(how)
            fires["finder: " + how.get("method", how.get("preset", ""))] = fires.get("finder: " + how.get("method", how.get("preset", "")), 0) + 1
            keys.append(pc.digest(f"find|{eq}|{lab}"))
            if msg is not None and len(viols) < 5:
                case = pc.net_case(inputs, output, sd)
                case.update({"family": "finder", "how": how})
                viols.append((f"C20 {lab} on {eq} sizes {pc.sizes_str(sd)}: {msg}", case))
    extra = {"cases_with_chi=huge_equality_checked": info.get("equal_checked", 0),
             "cases with the cap exactly on the largest arising bond checked": info.get("boundary_checked", 0),
             "(case, chi) pairs where the cap actually changes a size estimate": info.get("truncating", 0)}
    return {"name": name, "n": n_eval, "keys": b"".join(keys), "viols": viols, "samples": samples, "fires": fires, "extra": extra}


# --------------------------------------------------------------------------
# scopes
# --------------------------------------------------------------------------
def ordinary_part(nets, connected_only=False, min_n=2):
    out = []
    for ins, o in nets:
        if len(ins) < min_n or not pc.is_ordinary(ins):
            continue
        if connected_only and not pc.is_connected(ins):
            continue
        out.append((ins, o))
    return out


def sample_ordinary(nmin, nmax, k, r, count, rng, connected, max_out=4):
    out = []
    guard = 0
    while len(out) < count and guard < count * 500:
        guard += 1
        n = rng.randint(nmin, nmax)
        ins = []
        for _ in range(n):
            ln = rng.randint(1 if connected else 0, r)
            ins.append(tuple(rng.sample(range(k), ln)))
        m = {}
        for t in ins:
            for s in t:
                m.setdefault(s, len(m))
        ins = tuple(tuple(scope.SYMS[m[s]] for s in t) for t in ins)
        if connected and not pc.is_connected(ins):
            continue
        used = sorted({s for t in ins for s in t})
        o = tuple(rng.sample(used, rng.randint(0, min(max_out, len(used)))))
        out.append((ins, o))
    return out


def _plans(tier, rng):
    q = tier == "quick"
    out = []
    out.append(("ordinary part of Net(2,3,3) x the only tree", ordinary_part(scope.networks(2, 3, 3, outputs="sets")), True,
                {"trees": "all"}, "estimates; one output order per output set"))
    out.append(("ordinary part of Net(3,3,2) x all 3 trees (+ finders on the connected ones)", ordinary_part(scope.networks(3, 3, 2, outputs="sets")), True,
                {"trees": "all", "finders": 2}, "estimates for connected and disconnected; finders with 2 parameter samples"))
    out.append(("ordinary Net(3,3,3) sample x all 3 trees", ordinary_part(scope.sample_networks(3, 3, 3, 6000 if q else 40000, rng)), False,
                {"trees": "all", "finders": 2}, "seeded sample (ordinary part)"))
    out.append(("ordinary Net(4,4,2..3) sample x all 15 trees", sample_ordinary(4, 4, 4, 3, 700 if q else 5000, rng, connected=False), False,
                {"trees": "all", "finders": 4}, "seeded sample, connected and disconnected"))
    out.append(("ordinary Net(5,5,3) sample x all 105 trees", sample_ordinary(5, 5, 5, 3, 70 if q else 600, rng, connected=False), False,
                {"trees": "all", "finders": 4}, "seeded sample"))
    out.append(("ordinary connected networks, 6-8 tensors over 6 symbols, x 12 random trees", sample_ordinary(6, 8, 6, 3, 300 if q else 2500, rng, connected=True), False,
                {"trees": 12, "finders": 8}, "seeded sample; 0-4 output indices"))
    out.append(("finders: ordinary connected networks, 3-8 tensors over 6 symbols, 0-4 output indices", sample_ordinary(3, 8, 6, 3, 2000 if q else 15000, rng, connected=True), False,
                {"trees": 0, "finders": 8}, "seeded sample; 8 samples of each registered space (greedy-compressed, greedy-span, greedy-span-max, kahypar-agglom), "
                "HyperCompressedOptimizer per method, presets"))
    return out


def run_bounded(rep: Report, tier: str) -> None:
    global _DEADLINE
    rng = random.Random(f"{seed()}|C20|plans")
    _DEADLINE = deadline(tier, 300, 30 * 60)  # safety net only
    rep.rule = (
        "estimate case = (ordinary network with seeded sizes from {2,3,4,5}, binary tree, traversal order in {'surface_order', 'dfs', "
        "None, a random ranking callable}, compress_late); one evaluation compares chi in {1,2,4,16} with chi = 10^9 (monotonicity of "
        "max_size / peak_size / write) and, when no tensor is leaf-simplifiable, chi = 10^9 with the exact figures. Finder case = "
        "(connected ordinary network, finder call). Non-trivial iff the network has >= 3 tensors; distinct = distinct (network, tree, "
        "order kind, compress_late) resp. (network, finder label)."
    )
    rep.explanation += (
        "C20 bounded: tracker.flops == exact flops, tracker.write == exact write + sum of input sizes, tracker.max_size == max(exact "
        "max size, largest input) at chi = 10^9 for ordinary networks without leaf pre-processing; max_size / peak_size / write at "
        "chi in {1,2,4,16} never exceed the uncapped values for every ordinary network (connected or not); ContractionTreeCompressed "
        "defaults and path order; compressed finders return complete ordered trees on connected ordinary networks with 3-8 tensors. "
    )
    rep.assumptions.append("'largest tensor' of the compressed estimate counts the input tensors (DESIGN C20): max(exact max_size, largest input)")
    agg = pc.Agg(rep, MODULE)
    items = []
    for name, nets, exh, plan, bound in _plans(tier, rng):
        nets = list(nets)
        agg.declare(name, len(nets), exh, bound + f"; {len(nets)} networks")
        for idx, (i, o) in enumerate(nets):
            items.append((name, idx, i, o, plan))
    items.sort(key=lambda it: len(it[2]))  # small networks first: the smallest failing input is found before any time limit
    for status, r in pmap(_work, items, chunk=4):
        agg.add(status, r, "C20")
        if status == "ok":
            for sig, _c in r.get("viols", []):
                if ": HARNESS" in sig:
                    rep.crash("C20 harness inconsistency: " + sig[:300])
    agg.viols = [v for v in agg.viols if ": HARNESS" not in v[0]]
    agg.finish()
    # non-vacuity of the monotonicity claim: on the unchanged tree roughly every second (case, chi) pair is one
    # in which the cap really changes an estimate; if that never happens the "<= uncapped" comparison says nothing.
    bkey = "cases with the cap exactly on the largest arising bond checked"
    if rep.evaluations and not rep.extra.get(bkey, 0) and not rep.violations:
        rep.undecided_obligation(
            "C20 nothing-truncated boundary (bounded)",
            "the harness never observed a bond size inside HyperGraph.compress / neighborhood_compress_cost, so the case "
            "'cap equal to the largest bond' was not exercised (were those functions renamed?)",
        )
    key = "(case, chi) pairs where the cap actually changes a size estimate"
    if rep.evaluations and not rep.extra.get(key, 0) and not rep.violations:
        rep.undecided_obligation(
            "C20 monotonicity-in-chi (bounded)",
            "no cap in {1,2,4,16} changed any estimate in any case: the comparison with the uncapped values is vacuous "
            "(does HyperGraph.compress still cap merged bonds at chi?)",
        )
