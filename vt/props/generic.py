"""Generic property driver: T1 contracts (proved) + bounded driver (T2/T3)."""

from __future__ import annotations

import importlib
import json
import time

from ..common import Report
from .. import t1
from .table import T1_MODULES, LEVEL


def run_property(pid, tier):
    rep = Report(pid, tier, level=LEVEL.get(pid, "other"))
    import os

    only = os.environ.get("VERIF_ONLY", "")  # debugging aid: "t1" or "bounded"
    mods = T1_MODULES.get(pid, [])
    if mods and only != "bounded":
        t1.run_t1(rep, mods, pid=pid, quick=(tier == "quick"))
    if mods and tier == "thorough" and only != "bounded":
        # engine self-tests: deliberately broken bodies must fail a named obligation
        from ..pyvc import selftest

        selftest.run(rep, only_modules=mods)
        # engine unit tests: expected verdicts (proved / refuted / outside the subset) on tiny functions
        import subprocess, sys

        r = subprocess.run([sys.executable, "-m", "vt.pyvc.unit.run"], capture_output=True, text=True, timeout=600)
        rep.extra["engine_unit_tests"] = r.stdout.strip().splitlines()[-12:]
        if r.returncode != 0:
            rep.crash("engine unit tests: a verdict differs from the expected one: " + r.stdout[-600:])
    try:
        bounded = importlib.import_module(f"vt.props.{pid.lower()}_bounded")
    except ModuleNotFoundError as e:
        if f"{pid.lower()}_bounded" not in str(e):
            raise
        bounded = None
    if bounded is not None and only != "t1":
        bounded.run_bounded(rep, tier)
    nt1 = len(rep.obligations)
    nd = sum(o["status"] == "discharged" for o in rep.obligations)
    head = (
        f"contracts: {nd}/{nt1} obligations on {len(rep.functions_under_contract)} real functions proved unbounded "
        f"(AST->VC->z3, source re-read from the working tree); "
        f"bounded tiers: {rep.evaluations} evaluations over scopes {[s['name'] for s in rep.scopes]}. "
    )
    rep.explanation = head + (rep.explanation or "")
    return rep.finish()


def replay_property(pid, path):
    with open(path) as f:
        body = json.load(f)
    if "module" in body and "case" in body:
        mod = importlib.import_module(body["module"])
        ok, msg = mod.replay(body["case"])
        print(("REPRODUCED: " if not ok else "not reproduced: ") + str(msg))
        return 1 if not ok else 0
    if "counterexample" in body and body.get("counterexample", {}).get("case_seed") is not None:
        ok, msg = t1.replay_monitor(body)
        print(("REPRODUCED: " if not ok else "not reproduced: ") + str(msg))
        return 1 if not ok else 0
    print("replay file carries no executable case (solver output only):")
    print(json.dumps(body, indent=1)[:4000])
    return 1
