"""Source of MANIFEST.json (regenerate with bin/gen_manifest)."""

HOOK_COMMITS = []

_TECH = "contract-based deductive verification of the real source (sidecar contracts -> VCs from the AST -> z3/cvc5), with the same contracts as run-time monitors over bounded scopes for what the prover cannot reach"

_COMMON_NOTE = (
    "Proved part: Python ints mathematical, dict/set iteration order-free (ODict ordered), no aliasing between distinct parameters, decorators dropped, "
    "partial correctness; externals (hash, pickle, OS, RNG, numpy/autoray, third-party optimisers) only through assumed contracts listed in the evidence. "
    "Bounded part is labelled bounded in the evidence and never counted under obligations/discharged."
)


def _c(category, text, note, technique=_TECH):
    return {"category": category, "text": text, "note": note + " " + _COMMON_NOTE, "technique": technique}


CHECKS = {
    "C01": _c(
        "other",
        "Contracts proved for all inputs: the 'which index survives' rule (legs_union, get_legs, get_involved, compute_contracted_info), the per-node recipes "
        "(get_einsum_eq is a faithful renaming of the index strings for any number of indices; get_tensordot_axes pairs exactly the shared positions; get_tensordot_perm "
        "ranks the declared indices by tensordot-output position), the schedule (extract_contractions: the k-th entry is the k-th traversal step with the recipe of its own parent) "
        "and its execution (Contractor.__call__: for every valid schedule no lookup fails and each step stores the recipe's combination of its two children's arrays, in order, under the parent). The value property "
        "tree.contract == einsum with the declared axis order is checked bounded-symbolically: the real contract code runs on polynomial-valued "
        "arrays (equality for ALL array entries at a shape) over complete small network scopes x ALL binary trees x execution options. "
        "Right level because array/string code (numpy, index strings) is outside any SMT encoding available here.",
        "numpy/autoray are the trusted array semantics; dense reference einsum is independent of cotengra.",
    ),
    "C02": _c(
        "other",
        "History quantifier handled by a representation invariant wf(tree) that every public operation must preserve: proved for the small pure pieces "
        "(leg rules, _remove_node, contract_nodes_pair, reset_contraction_indices, remove_ind in place: per-node effect + invalidation of every dependent recipe, closed under parents; restore_ind in place: every recipe reset on return, exactly the restored record leaves sliced_inds; "
        "copy completeness as a syntactic frame clause); preservation by the remaining large mutators is checked bounded: ALL histories up to a length bound "
        "over a menu of operations from prepared cache states, with wf and the polynomial value checked on deep snapshots after every step.",
        "History length, operation menu and network sizes are bounded (stated in evidence).",
    ),
    "C03": _c(
        "other",
        "Proved for all inputs: the totals loops (contract_stats, total_flops, total_write, max_size, peak_size) compute exactly the sum / multiset / running peak "
        "over the traversed nodes times the multiplicity, MaxCounter keeps its multiset invariant, the leg rule (get_legs/get_involved) and the per-node figures "
        "(get_size/get_flops = product of sizes over legs / involved), and the slice count round trip: remove_ind multiplies the multiplicity by the size it records, restore_ind divides by exactly that recorded size (sliced: the whole range, projected: 1). Bounded: every figure against an independent evaluator "
        "and against the shapes actually produced while contracting, over complete small scopes x all trees x sliced subsets x orders.",
        "get_flops/get_size/traverse abstracted as pure functions inside the totals loops.",
    ),
    "C04": _c(
        "other",
        "Proved: tracked-total arithmetic pieces (MaxCounter multiset invariant, totals loops, annealing move evaluator == common leg/cost spec, copy completeness; restore_ind undoes remove_ind's multiplicity and slice record exactly and resets every recipe). "
        "Bounded: after every step of enumerated histories every figure and per-node index set equals a from-scratch rebuild; slice/unslice in every order restores figures.",
        "History length and scopes bounded.",
    ),
    "C05": _c(
        "exploration",
        "Run-time postcondition (complete, well-formed binary tree / valid linear path) on every finder entry point, exhaustively over small network scopes including the "
        "1- and 2-tensor, scalar, disconnected and hyper cases, plus seeded samples of each registered search space. Proved for all inputs: linear_to_ssa/ssa_to_linear, and the node bookkeeping of the lightweight processor behind "
        "greedy/optimal/random-greedy (pop_node, add_node, contract_nodes: exactly two live nodes leave, one fresh node arrives, exactly that step is recorded; "
        "optimize_greedy, simplify_scalars only ever join two different live nodes; remove_ix/simplify_batch never change which nodes are live; copy describes the same state; "
        "optimize_remaining_by_size ends with exactly one live node from any state). "
        "Exploration level: the finders wrap third-party partitioners and heuristics for which no contract within reach is decidable.",
        "kahypar/cmaes/nevergrad untrusted but unverified; only their outputs are checked.",
    ),
    "C06": _c(
        "other",
        "Proved for any number and sizes of sliced indices: strides are suffix products; slice_key is the mixed-radix decoding (digits in range, projected index fixed, "
        "decode(encode(i)) == i, hence slice numbers <-> value combinations one-to-one); slice_arrays takes from every sliced input exactly the section the key says, axis by axis, "
        "and hands the others through. Bounded-symbolic: slicing, gathering, stacking and lazy output chunks reproduce the "
        "unsliced polynomial value over small scopes x all trees x ordered subsets of <= 3 sliced/projected indices.",
        "Reassembly (numpy stack/sum) only bounded.",
    ),
    "C07": _c(
        "other",
        "Proved for all inputs: ContractionCosts.__init__ establishes and ContractionCosts.remove preserves the cost-model invariant (per-contraction flops/size are the "
        "products over the reduced index sets, tracked flops = their sum, tracked sizes = their multiset, where-map exact); SliceFinder.best/search return a cached slicing that "
        "satisfies every target in force; SliceFinder.trial keeps the cache invariants (the entry cached under a set of indices is the base minus exactly those indices; no cached "
        "set contains a forbidden index); MaxCounter invariant; copy completeness; from_contraction_tree forwards the caller's options to the constructor unchanged (syntactic clause: the baseline of `overhead` is the constructor's proved default). "
        "Bounded: whenever SliceFinder.search returns, predicted size/flops/nslices equal those of the tree "
        "actually sliced, targets honoured, forbidden indices never chosen; ContractionCosts.remove == ContractionTree.remove_ind figures for every index and ordered pair.",
        "Searches that raise are outside the property and counted separately.",
    ),
    "C08": _c(
        "other",
        "Proved for all inputs and all completion orders: HyperOptimizer._search leaves `best` an arg-min over the previous best and every consumed trial (any trial generator); "
        "_get_and_report_next_future returns, reports once and removes exactly one finished future; _maybe_report_result appends one aligned record; ComputeScore gives a failing "
        "trial an infinite score and no tree. Bounded: real HyperOptimizer runs with a harness pool whose futures complete in every permutation (<= 5 trials) and sampled orders "
        "beyond; best == argmin over trials, trial count <= max_repeats, recorded figures == returned tree (rebuilt).",
        "Schedule quantifier met for the harness pool only; real thread/process pools run once each.",
    ),
    "C09": _c(
        "other",
        "Proved for all inputs: each of the six per-step cost functions returns the stated formula over the merged legs and satisfies the sieve lemma result >= max(iscore, jscore) "
        "(which is what makes the doubling cost-cap sieve unable to drop the optimum); the inductive step of the dynamic programme as an iteration contract on the candidate-pair "
        "loop of optimize_optimal_connected (every pair is overlapping, a skipped outer product, at or over the cap, or leaves a table entry at most its cost; the table only improves). "
        "Bounded: optimize_optimal against exhaustive enumeration of all (2n-3)!! trees with an independent cost function.",
        "The DP's global induction over subsets and the enumeration of candidate pairs are not mechanised; bit masks are uninterpreted in the step contract.",
    ),
    "C10": _c(
        "other",
        "Proved for all pairwise paths: linear_to_ssa and ssa_to_linear keep the live-id list strictly increasing, never index out of range, and satisfy two-state iteration "
        "contracts from which the round-trip lemma follows. Bounded: traversal orders, tree<->path round trips, edge paths over all trees (n <= 6) and orders.",
        "Arity-2 steps in the proved part; bisect.bisect_left by its documented contract.",
    ),
    "C11": _c(
        "other",
        "Bounded-symbolic: cotengra.contract.einsum/tensordot on polynomial-valued arrays equal the dense reference for all equations over small alphabets x shapes from {1,2,3}. "
        "Proved: the recipes that feed them from a tree (get_einsum_eq, get_tensordot_axes, get_tensordot_perm); purity of the lru_cache'd plan parsers (syntactic clause).",
        "String/array plan code is outside the SMT encoding.",
    ),
    "C12": _c(
        "exploration",
        "Grammar-exhaustive differential testing of the einsum front end against numpy.einsum (exact integer arrays) and of array_contract/ncon against the dense reference.",
        "numpy.einsum is the specification.",
    ),
    "C13": _c(
        "other",
        "Proved: hash_contraction returns a tuple whose components are the terms, the output, the (label, size) pairs in order, the optimize argument and the options themselves "
        "(so the key is injective by construction). Proved (syntactic frame clauses on the AST): the key contains every component under injective constructors and is not reduced through hash(); cached and uncached "
        "branches call the builder with identical arguments; every lru_cache'd parser reads only its arguments. Bounded: differential cached-vs-cold over all call sequences (length <= 3/4) "
        "from pools differing in one key component.",
        "Dynamic attribute access is not followed by the syntactic analysis.",
    ),
    "C14": _c(
        "other",
        "Proved for all cache states: the lookup/run/overwrite policy of _maybe_run_optimizer (cache_only never searches; hit returns the stored record; 'improved' never worsens; "
        "'searched' only if this search's tree is the answer; no other entry touched); DiskDict read-your-write, reader returns the memory value or the complete stored value, "
        "presence == memory or file. Bounded: query sequences over pools of near-identical contractions, both fingerprints, disk reload in fresh processes.",
        "hash_query/_run_optimizer by assumed contracts; sha1 o pickle assumed injective on values.",
    ),
    "C15": _c(
        "other",
        "Proved over an assumed file-system model: after EVERY effect of DiskDict.__setitem__ (and for every number of bytes on disk during the write) each entry name is absent or a "
        "complete pickle, the new entry is complete at the end, other entries untouched; a reader over a recoverable directory never sees a partial entry (returns the value or KeyError). "
        "The same clauses run natively on real directories. Bounded: the real writer is killed at every byte offset and syscall boundary in child processes and fresh readers must recover.",
        "POSIX rename atomicity; temporary names are never entry names; prefix of a pickle does not unpickle.",
    ),
    "C16": _c(
        "other",
        "Proved (syntactic): every access to the per-thread optimizer slots is keyed by threading.get_ident(). Bounded: all query sequences (length <= 4) through each shared optimizer kind; "
        "forced orderings of marked points for 2 threads plus stress runs. The schedule quantifier itself is bounded, not proved.",
        "CPython dict get/set on distinct keys is atomic (GIL).",
    ),
    "C17": _c(
        "other",
        "Proved (syntactic effect clauses over the call graph): every seeded API threads its seed into every seeded callee and never touches the global RNG. Bounded: each API run in fresh "
        "interpreters with different PYTHONHASHSEED, perturbed global RNG and a tripwire on the random module.",
        "The all-hash-seeds quantifier is bounded; third-party optimisers unresolved.",
    ),
    "C18": _c(
        "other",
        "Proved for all leg maps: legs_union and compute_contracted_info equal the common step spec (kept = combined count below the global count; cost = product over the union; "
        "size = product over kept); syntactic clause: every node the lightweight processor creates through contract_nodes takes its legs from compute_contracted (directly, by default, or through the greedy candidate table). Bounded: the four simulators replay the same path step by step; reported flops/scores equal the rebuilt tree's.",
        "Tree rule (get_legs/get_involved) and processor rule (compute_contracted) are proved against the same step spec; the hypergraph rule is bounded only.",
    ),
    "C19": _c(
        "other",
        "Proved over mathematical reals (10**x uninterpreted with the exponent laws): add_maybe_exponent_stripped preserves mantissa*10**exponent in all four tuple/plain combinations; the exponent bookkeeping of Contractor.__call__ "
        "(array stored = intermediate / factor, exponent += log10(factor), for whatever factor is split off). "
        "Bounded: strip_exponent results vs a log-domain exact reference over per-tensor scales in {-100..100}.",
        "Floats treated as reals in the proof: absence of overflow is only checked bounded.",
    ),
    "C20": _c(
        "other",
        "Proved: CompressedStatsTracker arithmetic (running sums/maxima, frame); HyperGraph.contract/remove_node/add_node (hypergraph rule under the incidence invariant); "
        "neighborhood_compress_cost (no bond above the cap => no compression cost) and compress (size afterwards = old size or min(bond size, cap)) for arbitrary edge groups. "
        "Bounded: compressed estimates == exact figures when chi is huge or exactly the largest arising bond, monotone in chi, compressed finders return complete trees.",
        "The edge-grouping loops of compress / neighborhood_compress_cost are abstracted by havoc after a frame check; compressed_contract_stats as a whole is bounded.",
    ),
}

NOT_APPLICABLE = {}

NOTES = (
    "Every check: bin/check <id> --tier quick|thorough; exit 0 held, 1 VIOLATION (replay file), 2 undecided only, 3 checker crash. "
    "T1 = proved obligations (reported under coverage.obligations/discharged with backend and solver time); bounded tiers are labelled bounded. "
    "known_findings.json lists the 37 genuine defects of the pinned tree, all repaired by 'fix:' commits in /repo (nothing is suppressed). "
    "seeded/<id>/ and seeded/<id>-2/ hold two rounds of independently written property-breaking patches (20 + 20); bin/eval_seeded <id> applies one to /repo, runs the check and undoes it "
    "(all are caught; DESIGN 5.3 / 5.3b say which needed a strengthening first)."
)
