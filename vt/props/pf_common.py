"""Helpers shared by the bounded drivers of C05, C09, C10, C18 and C20.

Everything here is written from the property statements and shares no code
with cotengra: the step rule of a pairwise contraction, path replays, tree
well-formedness, network classification, the format converters.
"""

from __future__ import annotations

import hashlib
import itertools
import random
import signal

from .. import scope


# --------------------------------------------------------------------------
# printing / (de)serialising networks
# --------------------------------------------------------------------------
def eq_str(inputs, output):
    return ",".join("".join(map(str, t)) for t in inputs) + "->" + "".join(map(str, output))


def sizes_str(sd):
    return "".join(f"{k}{v}" for k, v in sorted(sd.items()))


def net_case(inputs, output, sd):
    return {"inputs": [list(t) for t in inputs], "output": list(output), "sizes": dict(sd)}


def net_from_case(case):
    inputs = tuple(tuple(t) for t in case["inputs"])
    output = tuple(case["output"])
    sd = {k: int(v) for k, v in case["sizes"].items()}
    return inputs, output, sd


def path_json(path):
    return [[int(x) for x in p] for p in path]


def digest(s):
    return hashlib.blake2b(s.encode(), digest_size=8).digest()


# --------------------------------------------------------------------------
# determinism and time limits around calls into the real code
# --------------------------------------------------------------------------
def seed_all(s):
    """cotengra's ``get_rng(None)`` is the global ``random`` module; seeding it
    (and numpy's global generator, used by some hyper-optimisation libraries)
    makes every unseeded finder a deterministic function of the case."""
    random.seed(str(s))
    try:
        import numpy as np

        np.random.seed(int.from_bytes(digest(str(s))[:4], "little"))
    except Exception:  # noqa: BLE001
        pass


# shared between the forked workers of one check: number of calls that ran
# into the CPU-time limit.  After a few of them the remaining work items are
# skipped (recorded as not exhaustive) so that a change that makes the real
# code loop cannot stall the whole check.
import multiprocessing as _mp

TIMEOUTS = _mp.Value("i", 0)
MAX_TIMEOUTS = 6


def too_many_timeouts():
    return TIMEOUTS.value >= MAX_TIMEOUTS


class Timeout(BaseException):
    """Raised inside a call into the real code that does not return in time
    (BaseException so that ``except Exception`` in the real code lets it through)."""


def _alarm(*_a):
    raise Timeout()


def with_timeout(seconds, fn, *a, **k):
    """Run fn(*a, **k); raise Timeout if it does not return within `seconds`
    of CPU time of this process (a timer on consumed CPU time, not wall-clock,
    so that a loaded machine cannot cause a false alarm; main thread of a
    (forked) process only)."""
    old = signal.signal(signal.SIGVTALRM, _alarm)
    signal.setitimer(signal.ITIMER_VIRTUAL, seconds)
    try:
        return fn(*a, **k)
    except Timeout:
        with TIMEOUTS.get_lock():
            TIMEOUTS.value += 1
        raise
    finally:
        signal.setitimer(signal.ITIMER_VIRTUAL, 0)
        signal.signal(signal.SIGVTALRM, old)


# --------------------------------------------------------------------------
# the contraction step rule (written from the statements of C03/C09/C18)
# --------------------------------------------------------------------------
def appearances(inputs, output):
    """Number of times each index occurs in the network: once per occurrence
    on an input (repeats counted) plus once per occurrence in the output."""
    app = {}
    for t in inputs:
        for ix in t:
            app[ix] = app.get(ix, 0) + 1
    for ix in output:
        app[ix] = app.get(ix, 0) + 1
    return app


def raw_legs(term):
    legs = {}
    for ix in term:
        legs[ix] = legs.get(ix, 0) + 1
    return legs


def reduced_legs(term, app):
    """Legs of an input after the single-tensor pre-reduction: an index all of
    whose occurrences are on this tensor (and which is not an output index) is
    summed at once; repeated occurrences collapse to one leg (diagonal)."""
    return {ix: c for ix, c in raw_legs(term).items() if c != app[ix]}


def is_leaf_simplifiable(term, app):
    legs = raw_legs(term)
    return len(legs) != len(term) or any(c == app[ix] for ix, c in legs.items())


def step(la, lb, app, sd):
    """One pairwise contraction.  la, lb: {index: occurrences accumulated}.
    Returns (legs, involved, flops, size): every index on either operand is
    involved (flops = product of their sizes); an index survives iff not all
    of its occurrences in the network have been absorbed."""
    tot = dict(la)
    for ix, c in lb.items():
        tot[ix] = tot.get(ix, 0) + c
    flops = 1
    for ix in tot:
        flops *= sd[ix]
    legs = {ix: c for ix, c in tot.items() if c < app[ix]}
    size = 1
    for ix in legs:
        size *= sd[ix]
    return legs, frozenset(tot), flops, size


def simulate(inputs, output, sd, ssa_path, reduce_leaves=True):
    """Replay an SSA path of pairwise steps (single-tensor steps ``(i,)`` are
    allowed and cost nothing).  Returns (steps, leaf_legs) where steps is a
    list of dicts {ids, legs(dict), involved, flops, size} for the pairwise
    steps in order."""
    app = appearances(inputs, output)
    cur = {}
    for i, t in enumerate(inputs):
        cur[i] = reduced_legs(t, app) if reduce_leaves else raw_legs(t)
    leaf = dict(cur)
    nxt = len(inputs)
    steps = []
    for con in ssa_path:
        con = tuple(con)
        if len(con) == 1:
            cur[nxt] = cur.pop(con[0])
        elif len(con) == 2:
            a, b = con
            la, lb = cur.pop(a), cur.pop(b)
            legs, inv, fl, sz = step(la, lb, app, sd)
            cur[nxt] = legs
            steps.append({"ids": (a, b), "new": nxt, "legs": legs, "involved": inv, "flops": fl, "size": sz})
        else:
            raise ValueError("simulate: only arity 1 and 2 steps")
        nxt += 1
    return steps, leaf


def totals(steps):
    fl = sum(s["flops"] for s in steps)
    wr = sum(s["size"] for s in steps)
    mx = max((s["size"] for s in steps), default=None)
    return {"flops": fl, "write": wr, "size": mx}


# --------------------------------------------------------------------------
# path replays (C05 / C10)
# --------------------------------------------------------------------------
def check_linear_path(path, n, complete=True):
    """Replay a linear (recycled-position) path on a list of n items.
    Returns None or a message."""
    try:
        items = list(path)
    except TypeError:
        return f"path is not a sequence: {path!r}"
    cur = [frozenset([i]) for i in range(n)]
    for k, con in enumerate(items):
        try:
            con = [int(x) for x in con]
        except (TypeError, ValueError):
            return f"step {k} = {con!r} is not a sequence of positions"
        if len(con) == 0:
            return f"step {k} is empty"
        if len(set(con)) != len(con):
            return f"step {k} = {tuple(con)} repeats a position"
        for x in con:
            if not (0 <= x < len(cur)):
                return f"step {k} = {tuple(con)} refers to position {x} but only {len(cur)} tensors remain"
        merged = frozenset().union(*(cur[x] for x in con))
        for x in sorted(con, reverse=True):
            cur.pop(x)
        cur.append(merged)
    if complete and len(cur) != 1:
        return f"path leaves {len(cur)} tensors, not 1"
    if complete and cur[0] != frozenset(range(n)):
        return "final tensor does not contain every input exactly once"
    return None


def check_ssa_path(path, n, complete=True):
    try:
        items = list(path)
    except TypeError:
        return f"ssa path is not a sequence: {path!r}"
    cur = {i: frozenset([i]) for i in range(n)}
    nxt = n
    for k, con in enumerate(items):
        try:
            con = [int(x) for x in con]
        except (TypeError, ValueError):
            return f"ssa step {k} = {con!r} is not a sequence of ids"
        if len(con) == 0:
            return f"ssa step {k} is empty"
        if len(set(con)) != len(con):
            return f"ssa step {k} = {tuple(con)} repeats an id"
        for x in con:
            if x not in cur:
                return f"ssa step {k} = {tuple(con)} uses id {x} which is not available (consumed or not yet created)"
        merged = frozenset().union(*(cur.pop(x) for x in con))
        cur[nxt] = merged
        nxt += 1
    if complete and len(cur) != 1:
        return f"ssa path leaves {len(cur)} tensors, not 1"
    return None


def my_linear_to_ssa(path, n):
    ids = list(range(n))
    nxt = n
    out = []
    for con in path:
        out.append(tuple(sorted(ids[c] for c in con)))
        for c in sorted(con, reverse=True):
            del ids[c]
        ids.append(nxt)
        nxt += 1
    return tuple(out)


def my_ssa_to_linear(ssa_path, n):
    ids = list(range(n))
    nxt = n
    out = []
    for con in ssa_path:
        pos = sorted(ids.index(s) for s in con)
        out.append(tuple(pos))
        for p in reversed(pos):
            del ids[p]
        ids.append(nxt)
        nxt += 1
    return tuple(out)


def ssa_nodes(ssa_path, n):
    """Leaf sets created by each step of an ssa path (arity >= 1)."""
    cur = {i: frozenset([i]) for i in range(n)}
    nxt = n
    out = []
    for con in ssa_path:
        merged = frozenset().union(*(cur.pop(x) for x in con))
        cur[nxt] = merged
        out.append(merged)
        nxt += 1
    return out


def norm_path(path):
    return tuple(tuple(sorted(int(x) for x in con)) for con in path)


# --------------------------------------------------------------------------
# tree well-formedness (C05 post-condition)
# --------------------------------------------------------------------------
def check_tree(tree, n):
    """Complete, well-formed binary contraction tree over n inputs?"""
    try:
        complete = tree.is_complete()
    except Exception as e:  # noqa: BLE001
        return f"is_complete() raised {type(e).__name__}: {str(e)[:80]}"
    if not complete:
        return "tree.is_complete() is False"
    if getattr(tree, "N", None) != n:
        return f"tree.N = {getattr(tree, 'N', None)} != {n}"
    root = frozenset(range(n))
    if frozenset(tree.root) != root:
        return f"root {sorted(tree.root)} is not all inputs"
    children = {frozenset(p): tuple(frozenset(c) for c in lr) for p, lr in tree.children.items()}
    if len(children) != n - 1:
        return f"{len(children)} internal nodes, expected {n - 1}"
    for p, lr in children.items():
        if len(lr) != 2:
            return f"node {sorted(p)} has {len(lr)} children"
        l, r = lr
        if not l or not r or (l & r) or (l | r) != p:
            return f"node {sorted(p)} is not the disjoint union of its children {sorted(l)}, {sorted(r)}"
    # walk from the root: leaves reached must partition range(n)
    seen = []
    stack = [root]
    nint = 0
    while stack:
        x = stack.pop()
        if len(x) == 1:
            seen.extend(x)
            continue
        if x not in children:
            return f"node {sorted(x)} has no children"
        nint += 1
        stack.extend(children[x])
    if sorted(seen) != list(range(n)):
        return f"leaves reached {sorted(seen)} do not partition range({n})"
    if nint != n - 1:
        return f"{nint} internal nodes reachable from the root, expected {n - 1}"
    return None


def tree_pairs(tree):
    """{parent: frozenset({left, right})} with frozenset nodes."""
    return {frozenset(p): frozenset(frozenset(c) for c in lr) for p, lr in tree.children.items()}


# --------------------------------------------------------------------------
# network classification
# --------------------------------------------------------------------------
def components(inputs):
    n = len(inputs)
    comp = list(range(n))

    def find(x):
        while comp[x] != x:
            comp[x] = comp[comp[x]]
            x = comp[x]
        return x

    first = {}
    for i, t in enumerate(inputs):
        for ix in t:
            if ix in first:
                comp[find(i)] = find(first[ix])
            else:
                first[ix] = i
    return len({find(i) for i in range(n)})


def is_connected(inputs):
    return components(inputs) == 1


def is_ordinary(inputs):
    """No index repeated inside a tensor."""
    return all(len(set(t)) == len(t) for t in inputs)


def has_leaf_preprocessing(inputs, output):
    app = appearances(inputs, output)
    return any(is_leaf_simplifiable(t, app) for t in inputs)


def nothing_to_presimplify(inputs, output):
    """The exact side condition of C09: connected, no repeated index within a
    tensor, no index confined to one tensor and absent from the output, no two
    tensors with the same index set, no scalars, no index shared by all
    tensors (n >= 2)."""
    n = len(inputs)
    if n < 2:
        return False
    if any(len(t) == 0 for t in inputs):
        return False
    if not is_ordinary(inputs):
        return False
    sets = [frozenset(t) for t in inputs]
    if len(set(sets)) != n:
        return False
    where = {}
    for i, s in enumerate(sets):
        for ix in s:
            where.setdefault(ix, set()).add(i)
    for ix, ts in where.items():
        if len(ts) == n:
            return False
        if len(ts) == 1 and ix not in output:
            return False
    return is_connected(inputs)


def random_sizes(inputs, output, values, rng):
    syms = sorted({s for t in inputs for s in t} | set(output))
    return {s: rng.choice(values) for s in syms}


def sample_space(space, rng):
    """One sample of a registered hyper-parameter space (declared ranges)."""
    import math

    out = {}
    for k in sorted(space):
        p = space[k]
        ty = p["type"]
        if ty == "BOOL":
            out[k] = rng.choice([False, True])
        elif ty == "INT":
            out[k] = rng.randint(int(p["min"]), int(p["max"]))
        elif ty == "STRING":
            out[k] = rng.choice(list(p["options"]))
        elif ty == "FLOAT":
            out[k] = rng.uniform(p["min"], p["max"])
        elif ty == "FLOAT_EXP":
            out[k] = 2 ** rng.uniform(math.log2(p["min"]), math.log2(p["max"]))
        else:
            raise ValueError(f"unknown parameter type {ty}")
    return out


# --------------------------------------------------------------------------
# enumeration of repeat-free networks as tuples of index sets
# --------------------------------------------------------------------------
def setnets(n, k, r, min_rank=0):
    """All n-tuples of tensors over <= k symbols whose index tuples are
    repeat-free and listed in increasing symbol order (the order of indices
    inside a tensor is immaterial for cost properties), rank in
    [min_rank, r], canonical up to first-appearance relabelling.  Yields
    inputs (tuples of letters)."""
    terms = []
    for ln in range(min_rank, r + 1):
        terms.extend(itertools.combinations(range(k), ln))
    for ins in itertools.product(terms, repeat=n):
        if not scope._canonical(ins):
            continue
        yield tuple(tuple(scope.SYMS[s] for s in t) for t in ins)


def output_sets(inputs):
    used = sorted({s for t in inputs for s in t})
    for m in range(len(used) + 1):
        for o in itertools.combinations(used, m):
            yield o


# --------------------------------------------------------------------------
# aggregation of worker results
# --------------------------------------------------------------------------
class Agg:
    """Parent-side accumulation of worker results.  A worker returns a dict
    {name, n, keys(bytes, 8 per key), viols[(sig, case)], samples[...],
     fires{...}, extra{...}, skipped(bool)}."""

    def __init__(self, rep, module):
        self.rep = rep
        self.module = module
        self.meta = {}
        self.viols = []
        self.order = []

    def declare(self, name, total, exhaustive, bound):
        self.meta[name] = {"total": total, "exh": exhaustive, "bound": bound, "done": 0, "evals": 0, "skipped": 0}
        self.order.append(name)

    def add(self, status, r, who):
        rep = self.rep
        if status == "crash":
            rep.crash(f"{who} worker: " + str(r)[:1500])
            return
        m = self.meta[r["name"]]
        if r.get("skipped"):
            m["skipped"] += 1
            return
        m["done"] += 1
        m["evals"] += r["n"]
        rep.count(r["n"])
        kb = r.get("keys", b"")
        for k in range(0, len(kb), 8):
            rep.nontrivial_case(kb[k : k + 8])
        for nm, c in r.get("fires", {}).items():
            rep.fired(nm, c)
        for nm, c in r.get("extra", {}).items():
            rep.extra[nm] = rep.extra.get(nm, 0) + c
        self.viols.extend(r.get("viols", []))
        for s in r.get("samples", []):
            rep.sample(s)

    def finish(self, max_viol=5, sort_key=None):
        rep = self.rep
        for name in self.order:
            m = self.meta[name]
            rep.scope(
                name, m["evals"], m["exh"] and m["skipped"] == 0 and m["done"] == m["total"],
                bound=m["bound"] + f"; work items done {m['done']}/{m['total']}"
                + (f"; {m['skipped']} skipped at the time limit" if m["skipped"] else ""),
            )
        if sort_key is None:
            def sort_key(v):
                c = v[1]
                ins = c.get("inputs", [])
                return (len(ins), sum(map(len, ins)), len(v[0]), v[0])
        self.viols.sort(key=sort_key)
        seen = set()
        for sig, case in self.viols:
            if sig in seen:
                continue
            seen.add(sig)
            rep.violation(sig, {"module": self.module, "case": case})
            if len(seen) >= max_viol:
                break
        return len(seen)
