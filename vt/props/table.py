"""Per-property wiring: which contract modules (T1) and which bounded driver."""

T1_MODULES = {
    "C01": ["vt.contracts.legs_rules"],
    "C02": ["vt.contracts.legs_rules"],
    "C03": ["vt.contracts.utils_maxcounter", "vt.contracts.legs_rules"],
    "C04": ["vt.contracts.utils_maxcounter", "vt.contracts.legs_rules"],
    "C06": ["vt.contracts.core_slicing"],
    "C07": ["vt.contracts.utils_maxcounter"],
    "C09": ["vt.contracts.con_cost"],
    "C18": ["vt.contracts.legs_rules"],
    "C19": ["vt.contracts.exponent"],
}

LEVEL = {"C05": "exploration", "C12": "exploration"}

TITLES = {}
