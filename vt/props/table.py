"""Per-property wiring: which contract modules (T1) and which bounded driver."""

T1_MODULES = {
    "C11": ["vt.contracts.syntactic", "vt.contracts.einsum_eq", "vt.contracts.tensordot_recipe", "vt.contracts.core_inds"],
    "C08": ["vt.contracts.hyper_score"],
    "C12": ["vt.contracts.misc_small", "vt.contracts.syntactic", "vt.contracts.einsum_front"],
    "C17": ["vt.contracts.syntactic", "vt.contracts.misc_small", "vt.contracts.core_reconfigure", "vt.contracts.core_remove_ind", "vt.contracts.legs_rules", "vt.contracts.utils_maxcounter"],
    "C16": ["vt.contracts.syntactic"],
    "C15": ["vt.contracts.diskdict_effects"],
    "C13": ["vt.contracts.syntactic", "vt.contracts.misc_small", "vt.contracts.cache_key"],
    "C01": ["vt.contracts.legs_rules", "vt.contracts.core_mutators", "vt.contracts.utils_maxcounter", "vt.contracts.einsum_eq", "vt.contracts.tensordot_recipe", "vt.contracts.core_legs", "vt.contracts.core_inds", "vt.contracts.contractor_protocol", "vt.contracts.extract_schedule"],
    "C02": ["vt.contracts.legs_rules", "vt.contracts.syntactic", "vt.contracts.core_mutators", "vt.contracts.utils_maxcounter", "vt.contracts.core_remove_ind", "vt.contracts.core_reconfigure", "vt.contracts.core_restore_ind"],
    "C03": ["vt.contracts.utils_maxcounter", "vt.contracts.legs_rules", "vt.contracts.core_stats", "vt.contracts.core_legs", "vt.contracts.core_remove_ind", "vt.contracts.core_restore_ind", "vt.contracts.core_reconfigure"],
    "C04": ["vt.contracts.utils_maxcounter", "vt.contracts.legs_rules", "vt.contracts.core_stats", "vt.contracts.syntactic", "vt.contracts.core_mutators", "vt.contracts.core_remove_ind", "vt.contracts.core_restore_ind", "vt.contracts.core_reconfigure"],
    "C06": ["vt.contracts.core_slicing", "vt.contracts.core_remove_ind", "vt.contracts.legs_rules", "vt.contracts.utils_maxcounter", "vt.contracts.slice_arrays"],
    "C07": ["vt.contracts.utils_maxcounter", "vt.contracts.syntactic", "vt.contracts.slicer_costs", "vt.contracts.core_slice"],
    "C05": ["vt.contracts.path_convert", "vt.contracts.processor_legs", "vt.contracts.processor_nodes"],
    "C09": ["vt.contracts.con_cost", "vt.contracts.processor_legs", "vt.contracts.dp_step"],
    "C10": ["vt.contracts.path_convert", "vt.contracts.traversal"],
    "C14": ["vt.contracts.reusable_policy", "vt.contracts.diskdict_effects"],
    "C18": ["vt.contracts.syntactic", "vt.contracts.legs_rules", "vt.contracts.processor_legs", "vt.contracts.core_legs", "vt.contracts.hypergraph_ops"],
    "C19": ["vt.contracts.exponent", "vt.contracts.contractor_protocol"],
    "C20": ["vt.contracts.compressed_tracker", "vt.contracts.hypergraph_ops"],
}

LEVEL = {"C05": "exploration", "C12": "exploration"}

TITLES = {}
