"""Per-property wiring: which contract modules (T1) and which bounded driver."""

T1_MODULES = {
    "C03": ["vt.contracts.utils_maxcounter"],
    "C04": ["vt.contracts.utils_maxcounter"],
    "C06": ["vt.contracts.core_slicing"],
    "C07": ["vt.contracts.utils_maxcounter"],
}

LEVEL = {"C05": "exploration", "C12": "exploration"}

TITLES = {}
