"""Calls: builtins, container methods, spec-language builtins, modular calls
to contracted functions, comprehensions."""

from __future__ import annotations

import ast

import z3

from . import types as Ty
from .types import V, Int, Bool, Key, Real
from .engine import Unsupported, NeedSplit, Ref, Obj, ObjT, PyConst, RaiseSignal, PathEnd, Heap


def _args(engine, st, node):
    out = []
    for a in node.args:
        if isinstance(a, ast.Starred):
            v = engine.deref(st, engine.eval(st, a.value))
            if isinstance(v, V) and isinstance(v.t, Ty.Tuple):
                out.extend(Ty.split(v.t, v.c))
                continue
            if isinstance(v, PyConst) and v.val == "<varargs>":
                out.append(v)  # opaque pass-through of *args
                continue
            if isinstance(v, V) and isinstance(v.t, (Ty.Map, Ty.Set)):
                # f(*d) where the path fixes len(d) == n (small): the n distinct keys of d, in some order
                dom = v.c[0]
                for n in (1, 2, 3):
                    if engine.entailed(st, engine.card(dom) == n):
                        ks = [engine.fresh(st, f"starkey{j}", node, Ty.IntS) for j in range(n)]
                        only = z3.K(Ty.IntS, z3.BoolVal(False))
                        for k in ks:
                            only = z3.Store(only, k, True)
                        st.assume(z3.And(z3.Distinct(*ks) if n > 1 else z3.BoolVal(True), dom == only))
                        out.extend(V(Int, [k]) for k in ks)
                        break
                else:
                    raise Unsupported("star-args call on a dict/set whose size the path does not fix (<= 3)")
                continue
            raise Unsupported("star-args call on a non-tuple")
        out.append(engine.eval(st, a))
    return out


def _kwargs(engine, st, node):
    out = {}
    for kw in node.keywords:
        if kw.arg is None:
            v = engine.eval(st, kw.value)
            if isinstance(v, PyConst) and v.val == "<kwargs>":
                out["**"] = v  # opaque pass-through of **kwargs
                continue
            if isinstance(v, V) and type(v.t) is type(Key):
                out["**"] = v  # an opaque options object forwarded as keywords (only externals see it)
                continue
            raise Unsupported("**kwargs call")
        out[kw.arg] = engine.eval(st, kw.value)
    return out


# ------------------------------------------------------------------ spec
def spec_call(engine, st, name, node):
    """Builtins of the contract language (only in spec mode)."""
    if name in ("forall", "exists"):
        # forall(lo, hi, lambda k: P)  |  forall(lambda k: P)  | forall_in via 'forall(S, lambda k: P)'
        lam = node.args[-1]
        if not isinstance(lam, ast.Lambda):
            raise Unsupported("forall needs a lambda")
        names = [a.arg for a in lam.args.args]
        zs = [z3.Int(f"q!{n}!{getattr(lam, 'lineno', 0)}.{lam.col_offset}") for n in names]
        guards = []
        if len(node.args) == 3:
            lo = engine.num(engine.eval(st, node.args[0]))
            hi = engine.num(engine.eval(st, node.args[1]))
            for zc in zs:
                guards += [lo <= zc, zc < hi]
        elif len(node.args) == 2:
            S = engine.deref(st, engine.eval(st, node.args[0]))
            for zc in zs:
                guards.append(domain_of(engine, S)[zc])
        old = dict(engine.bound)
        for n, zc in zip(names, zs):
            engine.bound[n] = V(Int, [zc])
        try:
            body = engine.truth(st, engine.eval(st, lam.body))
        finally:
            engine.bound = old
        if name == "forall":
            f = z3.Implies(z3.And(*guards), body) if guards else body
            return Ty.mk_bool(z3.ForAll(zs, f))
        f = z3.And(*guards, body) if guards else body
        return Ty.mk_bool(z3.Exists(zs, f))
    if name == "implies":
        a, b = [engine.truth(st, engine.eval(st, x)) for x in node.args]
        return Ty.mk_bool(z3.Implies(a, b))
    if name == "iff":
        a, b = [engine.truth(st, engine.eval(st, x)) for x in node.args]
        return Ty.mk_bool(a == b)
    if name == "old":
        if st.old is None:
            # in a precondition the pre-state is the current state
            return engine.eval(st, node.args[0])
        s_old = st.old
        saved = (st.vars, st.heap)
        # evaluate in the pre-state (parameters keep their names)
        tmp = st.clone()
        tmp.vars, tmp.heap = dict(s_old[0]), Heap(s_old[1])
        tmp.old = None
        # values created after the pre-state (e.g. `result`, quantified
        # variables) stay visible by value inside old(...)
        for bv_ in engine.bound.values():
            if isinstance(bv_, Ref) and bv_.id not in tmp.heap and bv_.id in st.heap:
                tmp.heap[bv_.id] = st.heap[bv_.id]
        v = engine.eval(tmp, node.args[0])
        if isinstance(v, Ref):
            return tmp.heap[v.id]
        return v
    if name == "same_node":
        a = engine.deref(st, engine.eval(st, node.args[0]))
        b = engine.deref(st, engine.eval(st, node.args[1]))
        return Ty.mk_bool(engine.keyterm(a) == engine.keyterm(b))
    if name == "members":
        # members(k): the set a frozenset-valued dict key k stands for (inverse of the injective key function)
        from . import types as _T

        SetS = z3.ArraySort(_T.IntS, _T.BoolS)
        engine.keyterm(V(_T.Set(Key), [z3.K(_T.IntS, z3.BoolVal(False))]))  # makes sure `setkey` exists
        sk = engine.specfns["setkey"][0]
        if "keyset" not in engine.specfns:
            ks = z3.Function("keyset", _T.IntS, SetS)
            engine.specfns["keyset"] = (ks, [], Int, None)
            A_ = z3.Const("ks!A", SetS)
            engine.axioms.append(z3.ForAll([A_], ks(sk(A_)) == A_, patterns=[sk(A_)]))
        k = engine.keyterm(engine.deref(st, engine.eval(st, node.args[0])))
        return V(_T.Set(Key), [engine.specfns["keyset"][0](k)])
    if name == "at_entry":
        snap = getattr(st, "loop_entry", None)
        if snap is None:
            raise Unsupported("at_entry() outside a loop specification")
        tmp = st.clone()
        tmp.vars, tmp.heap = dict(snap[0]), Heap(snap[1])
        v = engine.eval(tmp, node.args[0])
        if isinstance(v, Ref):
            return tmp.heap[v.id]
        return v
    if name == "prev":
        snap = getattr(st, "iter_old", None)
        if snap is None:
            raise Unsupported("prev() outside a loop iteration contract")
        tmp = st.clone()
        tmp.vars, tmp.heap = dict(snap[0]), Heap(snap[1])
        v = engine.eval(tmp, node.args[0])
        if isinstance(v, Ref):
            return tmp.heap[v.id]
        return v
    if name == "keys":
        S = engine.deref(st, engine.eval(st, node.args[0]))
        return V(Ty.Set(Key), [domain_of(engine, S)])
    if name == "union":
        A, B = [domain_of(engine, engine.deref(st, engine.eval(st, x))) for x in node.args]
        return V(Ty.Set(Key), [z3.SetUnion(A, B)])
    if name == "inter":
        A, B = [domain_of(engine, engine.deref(st, engine.eval(st, x))) for x in node.args]
        return V(Ty.Set(Key), [z3.SetIntersect(A, B)])
    if name == "minus":
        A, B = [domain_of(engine, engine.deref(st, engine.eval(st, x))) for x in node.args]
        return V(Ty.Set(Key), [z3.SetDifference(A, B)])
    if name == "with_key":
        A = domain_of(engine, engine.deref(st, engine.eval(st, node.args[0])))
        k = engine.keyterm(engine.deref(st, engine.eval(st, node.args[1])))
        return V(Ty.Set(Key), [z3.Store(A, k, True)])
    if name == "without_key":
        A = domain_of(engine, engine.deref(st, engine.eval(st, node.args[0])))
        k = engine.keyterm(engine.deref(st, engine.eval(st, node.args[1])))
        return V(Ty.Set(Key), [z3.Store(A, k, False)])
    if name == "empty":
        return V(Ty.Set(Key), [z3.K(Ty.IntS, z3.BoolVal(False))])
    if name == "subset":
        A, B = [domain_of(engine, engine.deref(st, engine.eval(st, x))) for x in node.args]
        return Ty.mk_bool(z3.IsSubset(A, B))
    if name == "setof":
        # setof(lambda k: P)  -> { k | P }
        lam = node.args[0]
        zc = z3.Int(f"so!{lam.args.args[0].arg}!{lam.col_offset}")
        old = dict(engine.bound)
        engine.bound[lam.args.args[0].arg] = V(Int, [zc])
        try:
            body = engine.truth(st, engine.eval(st, lam.body))
        finally:
            engine.bound = old
        return V(Ty.Set(Key), [z3.Lambda([zc], body)])
    if name == "mapof":
        # mapof(lambda x: in_domain, lambda x: value)
        ld, lv = node.args
        zc = z3.Int(f"mo!{ld.args.args[0].arg}!{ld.col_offset}")
        old = dict(engine.bound)
        try:
            engine.bound[ld.args.args[0].arg] = V(Int, [zc])
            dom = engine.truth(st, engine.eval(st, ld.body))
            engine.bound = dict(old)
            engine.bound[lv.args.args[0].arg] = V(Int, [zc])
            val = engine.unbox_value(st, engine.eval(st, lv.body))
        finally:
            engine.bound = old
        return V(Ty.Map(Key, val.t), [z3.Lambda([zc], dom)] + [z3.Lambda([zc], c) for c in val.c])
    if name == "prodset":
        S = domain_of(engine, engine.deref(st, engine.eval(st, node.args[0])))
        sz = engine.deref(st, engine.eval(st, node.args[1]))
        return V(Int, [engine.prodset(S, sz)])
    if name == "ifbound":
        # ifbound('x', default): the local x if it has been assigned on this path, else the default
        nm = node.args[0].value
        if nm in st.vars or nm in engine.bound:
            cur = engine.eval(st, ast.Name(id=nm, ctx=ast.Load()))
            flag = st.vars.get("bound!" + nm)
            if flag is not None and not z3.is_true(flag.term):
                dflt = engine.eval(st, node.args[1])
                if isinstance(cur, V) and isinstance(dflt, V) and len(cur.c) == 1:
                    return V(cur.t, [z3.If(flag.term, cur.term, engine.coerce(dflt, cur.t).term)])
                raise Unsupported("ifbound of a container")
            return cur
        return engine.eval(st, node.args[1])
    if name == "isbound":
        # isbound('x'): the local x has been assigned on this path
        nm = node.args[0].value
        flag = st.vars.get("bound!" + nm)
        if flag is not None:
            return flag
        return Ty.mk_bool(nm in st.vars or nm in engine.bound)
    if name == "count_in":
        # count_in(xs, k, t) = #{p < t : xs[p] == k} for a sequence of scalars
        from . import colsum as CS

        SUM, CNT = CS.theory(engine)
        xs = engine.deref(st, engine.eval(st, node.args[0]))
        if not (isinstance(xs, V) and isinstance(xs.t, Ty.List) and len(xs.c) == 2):
            raise Unsupported("count_in of a non-scalar sequence")
        return V(Int, [CNT(xs.c[1], engine.keyterm(engine.deref(st, engine.eval(st, node.args[1]))), engine.num(engine.eval(st, node.args[2])))])
    if name in ("colsum", "colcount"):
        # colsum(rows, field, t) = sum of rows[p][field] for p < t;  colcount(rows, field, k, t) = #{p < t : rows[p][field] == k}
        from . import colsum as CS

        SUM, CNT = CS.theory(engine)
        rows = engine.deref(st, engine.eval(st, node.args[0]))
        fld = node.args[1].value
        col = CS.column(engine, st, rows, fld)
        if name == "colsum":
            return V(Int, [SUM(col, engine.num(engine.eval(st, node.args[2])))])
        return V(Int, [CNT(col, engine.num(engine.eval(st, node.args[2])), engine.num(engine.eval(st, node.args[3])))])
    if name == "get":
        # get(d, k, default): total map lookup
        d = engine.deref(st, engine.eval(st, node.args[0]))
        k = engine.keyterm(engine.deref(st, engine.eval(st, node.args[1])))
        dflt = engine.eval(st, node.args[2])
        mp = as_map(d)
        return Ty.ite(mp.c[0][k], engine.mapval(mp, k), engine.coerce(dflt, mp.t.v))
    if name == "close":
        # real equality for the prover; relative tolerance in the run-time monitor
        a, b = [engine.eval(st, x) for x in node.args]
        return Ty.mk_bool(engine.equal(st, a, b))
    if name == "is_neginf":
        v = engine.eval(st, node.args[0])
        if isinstance(v, V) and isinstance(v.t, Ty.Opt):
            return Ty.mk_bool(v.c[0])
        if isinstance(v, PyConst):
            return Ty.mk_bool(v.val == -float("inf"))
        return Ty.mk_bool(False)
    if name == "unopt":
        v = engine.eval(st, node.args[0])
        if isinstance(v.t, Ty.Opt):
            return V(v.t.t, v.c[1:])
        return v
    if name == "fresh_ref":
        # fresh_ref(x): x is a heap object allocated during the call
        v = engine.eval(st, node.args[0])
        if not isinstance(v, Ref):
            return Ty.mk_bool(False)
        return Ty.mk_bool(v.id not in (st.old[1] if st.old else {}))
    if name == "same_ref":
        a, b = [engine.eval(st, x) for x in node.args]
        return Ty.mk_bool(isinstance(a, Ref) and isinstance(b, Ref) and a.id == b.id)
    if name in engine.specfns:
        f, args, ret, _ = engine.specfns[name]
        vals = [engine.eval(st, a) for a in node.args]
        zs = []
        for v in vals:
            v = engine.deref(st, v)
            if isinstance(v, V) and isinstance(v.t, Ty._Real):
                zs.append(v.term)
            else:
                zs.append(engine.num(v) if not isinstance(v, PyConst) else engine.keyterm(v))
        return V(ret, [f(*zs)])
    return None


def as_map(d):
    if isinstance(d.t, Ty.ODict):
        return V(d.t.map_t, d.c[len(d.t.keys_t.sorts()) :])
    if isinstance(d.t, Ty.Map):
        return d
    raise Unsupported(f"map expected: {d.t}")


def domain_of(engine, S):
    if isinstance(S, V):
        if isinstance(S.t, (Ty.Set, Ty.Map)):
            return S.c[0]
        if isinstance(S.t, Ty.ODict):
            return S.c[len(S.t.keys_t.sorts())]
        if isinstance(S.t, Ty.List) and len(S.t.e.sorts()) >= 1:
            p, k = z3.Int("dom!p"), z3.Int("dom!k")
            return z3.Lambda([k], z3.Exists([p], z3.And(0 <= p, p < S.c[0], S.c[1][p] == k)))
    raise Unsupported(f"domain of {S}")


# -------------------------------------------------------------- containers
def list_pop(engine, st, ref, lv, idx, node):
    ln = lv.c[0]
    if idx is None:
        i = ln - 1
    else:
        i = engine.num(engine.deref(st, idx))
        si = z3.simplify(i)
        if z3.is_int_value(si) and si.as_long() < 0:
            i = ln + i
    engine.oblige(st, z3.And(0 <= i, i < ln), f"pop/del index in range at line {engine.line(node)}", "safety", node)
    val = engine.elem(lv, i)
    p = z3.Int("pop!p")
    arrs = [z3.Lambda([p], z3.If(p < i, a[p], a[p + 1])) for a in lv.c[1:]]
    st.heap[ref.id] = V(lv.t, [ln - 1] + arrs)
    return val


def list_insert(engine, st, ref, lv, i, val):
    """list.insert(i, v).  The new content is a named array described by shift
    axioms keyed on the OLD array (so that facts about old positions carry over
    to the shifted positions by instantiation) and on the new one."""
    ln = lv.c[0]
    # python clamps the position
    i = z3.If(i > ln, ln, z3.If(i < 0, z3.If(ln + i < 0, 0, ln + i), i))
    pos = z3.Const(f"ins!at!{engine.new_id()}", Ty.IntS)
    st.assume(pos == i)
    p = z3.Int("ins!p")
    arrs = []
    for a, c in zip(lv.c[1:], val.c):
        if not (z3.is_const(a) and a.decl().kind() == z3.Z3_OP_UNINTERPRETED):
            # name the old content too (it may be a computed array)
            an = z3.Const(f"ins!old!{engine.new_id()}", a.sort())
            st.assume(z3.ForAll([p], an[p] == z3.simplify(a[p])))
            a = an
        b = z3.Const(f"ins!new!{engine.new_id()}", a.sort())
        st.assume(b[pos] == c)
        st.assume(z3.ForAll([p], z3.Implies(p < pos, b[p] == a[p]), patterns=[a[p]]))
        st.assume(z3.ForAll([p], z3.Implies(p < pos, b[p] == a[p]), patterns=[b[p]]))
        st.assume(z3.ForAll([p], z3.Implies(p >= pos, b[p + 1] == a[p]), patterns=[a[p]]))
        st.assume(z3.ForAll([p], z3.Implies(p > pos, b[p] == a[p - 1]), patterns=[b[p]]))
        arrs.append(b)
    st.heap[ref.id] = V(lv.t, [ln + 1] + arrs)


def odict_store(engine, st, ref, dv, k, val):
    t = dv.t
    n = len(t.keys_t.sorts())
    ln, karr = dv.c[0], dv.c[1]
    dom = dv.c[n]
    present = dom[k]
    new_ln = z3.If(present, ln, ln + 1)
    new_karr = z3.If(present, karr, z3.Store(karr, ln, k))
    new_dom = z3.Store(dom, k, True)
    new_vals = [z3.Store(a, k, c) for a, c in zip(dv.c[n + 1 :], val.c)]
    st.heap[ref.id] = V(t, [new_ln, new_karr] + dv.c[2:n] + [new_dom] + new_vals)


def method_call(engine, st, base, bv, meth, node):
    args = _args(engine, st, node)
    kwargs = _kwargs(engine, st, node)
    t = bv.t if isinstance(bv, V) else None
    isref = isinstance(base, Ref)
    if isinstance(t, (Ty.Map, Ty.Set, Ty.ODict)) and meth in ("pop", "get", "add", "remove", "discard", "setdefault") and args and not engine.spec_mode:
        # an Optional used as a key: the code relies on it not being None here (None is not a key of this model)
        a0 = engine.deref(st, args[0])
        if isinstance(a0, V) and isinstance(a0.t, Ty.Opt) and isinstance(a0.t.t, Ty._Int):
            engine.oblige(st, z3.Not(a0.c[0]), f"key is not None at line {engine.line(node)}", "safety", node)
            args[0] = V(a0.t.t, a0.c[1:])

    def need_ref():
        if not isref:
            raise Unsupported(f"mutating method {meth} on a value")

    if isinstance(t, Ty.List):
        if meth == "append":
            need_ref()
            val = engine.coerce(engine.unbox_value(st, args[0]), t.e)
            st.heap[base.id] = V(t, [bv.c[0] + 1] + [z3.Store(a, bv.c[0], c) for a, c in zip(bv.c[1:], val.c)])
            return Ty.mk_none()
        if meth == "pop":
            need_ref()
            return list_pop(engine, st, base, bv, args[0] if args else None, node)
        if meth == "insert":
            need_ref()
            list_insert(engine, st, base, bv, engine.num(args[0]), engine.coerce(engine.unbox_value(st, args[1]), t.e))
            return Ty.mk_none()
        if meth == "copy":
            return engine.alloc(st, bv)
        if meth == "extend":
            need_ref()
            other = engine.deref(st, args[0])
            if not (isinstance(other, V) and isinstance(other.t, Ty.List)):
                raise Unsupported("extend with non-list")
            p = z3.Int("ext!p")
            ln = bv.c[0]
            arrs = [z3.Lambda([p], z3.If(p < ln, a[p], b[p - ln])) for a, b in zip(bv.c[1:], other.c[1:])]
            st.heap[base.id] = V(t, [ln + other.c[0]] + arrs)
            return Ty.mk_none()
        if meth == "sort" and not args and not kwargs:
            need_ref()
            return sort_list(engine, st, base, bv, node)
        if meth == "index":
            k = engine.keyterm(engine.deref(st, args[0]))
            r = engine.fresh(st, "index", node, Ty.IntS)
            present = engine.contains(st, bv, args[0], node)
            engine.oblige(st, present, f"list.index element present at line {engine.line(node)}", "safety", node)
            p = z3.Int("idx!p")
            st.assume(z3.And(0 <= r, r < bv.c[0], bv.c[1][r] == k, z3.ForAll([p], z3.Implies(z3.And(0 <= p, p < r), bv.c[1][p] != k))))
            return V(Int, [r])
    if isinstance(t, Ty.Map):
        if meth == "get":
            k = engine.keyterm(engine.deref(st, args[0]))
            dflt = args[1] if len(args) > 1 else Ty.mk_none()
            val = engine.mapval(bv, k)
            if isinstance(dflt.t, Ty._None):
                return Ty.ite(bv.c[0][k], Ty.mk_opt_some(val), Ty.mk_opt_none(t.v))
            return Ty.ite(bv.c[0][k], val, engine.coerce(dflt, t.v))
        if meth == "copy":
            return engine.alloc(st, bv)
        if meth == "pop":
            need_ref()
            k = engine.keyterm(engine.deref(st, args[0]))
            val = engine.mapval(bv, k)
            if len(args) < 2:
                engine.oblige(st, bv.c[0][k], f"popped key present at line {engine.line(node)}", "safety", node)
                res = val
            else:
                d = args[1]
                if isinstance(d.t, Ty._None):
                    res = Ty.ite(bv.c[0][k], Ty.mk_opt_some(val), Ty.mk_opt_none(t.v))
                else:
                    res = Ty.ite(bv.c[0][k], val, engine.coerce(d, t.v))
            st.heap[base.id] = V(t, [z3.Store(bv.c[0], k, False)] + bv.c[1:])
            return res
        if meth == "setdefault":
            need_ref()
            k = engine.keyterm(engine.deref(st, args[0]))
            if isinstance(t.v, Ty.SDict):
                # d.setdefault(k, dict()): the default is an empty string-keyed dict
                d = Ty.sdict_empty(t.v)
            else:
                d = engine.coerce(engine.unbox_value(st, args[1]), t.v)
            present = bv.c[0][k]
            newvals = [z3.If(present, a, z3.Store(a, k, c)) for a, c in zip(bv.c[1:], d.c)]
            st.heap[base.id] = V(t, [z3.Store(bv.c[0], k, True)] + newvals)
            return engine.mapval(st.heap[base.id], k)
        if meth == "clear":
            need_ref()
            st.heap[base.id] = V(t, [z3.K(Ty.IntS, z3.BoolVal(False))] + bv.c[1:])
            return Ty.mk_none()
        if meth in ("items", "keys", "values"):
            raise Unsupported("dict view outside a for/comprehension")
    if isinstance(t, Ty.SDict):
        off = t.offsets()
        if meth == "clear":
            need_ref()
            comps = list(bv.c)
            for n_, (a, b, c, ft) in off.items():
                comps[a] = z3.BoolVal(False)
            st.heap[base.id] = V(t, comps)
            return Ty.mk_none()
        if meth == "copy":
            return engine.alloc(st, bv)
        if meth == "setdefault" and len(args) == 2 and isinstance(args[0], PyConst) and isinstance(args[0].val, str) and args[0].val in off:
            need_ref()
            a, b, c, ft = off[args[0].val]
            newv = engine.coerce(engine.unbox_value(st, args[1]), ft)
            comps = list(bv.c)
            present = bv.c[a]
            comps[a] = z3.BoolVal(True)
            comps[b:c] = [z3.If(present, x, y) for x, y in zip(bv.c[b:c], newv.c)]
            st.heap[base.id] = V(t, comps)
            return V(ft, comps[b:c])
        if meth == "update" and len(args) == 1:
            need_ref()
            other = engine.deref(st, args[0])
            if not (isinstance(other, V) and isinstance(other.t, Ty.SDict)):
                raise Unsupported("update() of a string-keyed dict with something else")
            ooff = other.t.offsets()
            comps = list(bv.c)
            for name_, (oa, ob, oc, oft) in ooff.items():
                if name_ not in off:
                    raise Unsupported(f"update() brings key {name_!r} outside the declared fields")
                a, b, c, ft = off[name_]
                ov = engine.coerce(V(oft, other.c[ob:oc]), ft)
                present = other.c[oa]
                comps[a] = z3.Or(comps[a], present)
                comps[b:c] = [z3.If(present, y, x) for x, y in zip(comps[b:c], ov.c)]
            st.heap[base.id] = V(t, comps)
            return Ty.mk_none()
        if meth in ("pop", "get"):
            k = args[0]
            if not (isinstance(k, PyConst) and isinstance(k.val, str)):
                raise Unsupported("string-keyed dict with a computed key")
            if k.val not in off:
                if len(args) > 1:
                    return args[1] if not isinstance(args[1], V) or not isinstance(args[1].t, Ty._None) else Ty.mk_none()
                raise Unsupported(f"key {k.val!r} outside the declared fields")
            a, b, c, ft = off[k.val]
            present = bv.c[a]
            val = V(ft, bv.c[b:c])
            if len(args) < 2:
                if meth == "get":
                    res = Ty.ite(present, Ty.mk_opt_some(val), Ty.mk_opt_none(ft)) if not ft.mutable else None
                    if res is None:
                        raise Unsupported("get() of a container field without default")
                else:
                    engine.oblige(st, present, f"popped key {k.val!r} present at line {engine.line(node)}", "safety", node)
                    res = val
            else:
                d = args[1]
                if isinstance(d, V) and isinstance(d.t, Ty._None):
                    if ft.mutable or isinstance(ft, Ty.Opt):
                        res = Ty.mk_none()  # result unused in the supported idiom pop(k, None)
                    else:
                        res = Ty.ite(present, Ty.mk_opt_some(val), Ty.mk_opt_none(ft))
                else:
                    res = Ty.ite(present, val, engine.coerce(engine.unbox_value(st, d), ft))
            if meth == "pop":
                need_ref()
                comps = list(bv.c)
                comps[a] = z3.BoolVal(False)
                st.heap[base.id] = V(t, comps)
            return res
    if isinstance(t, Ty.ODict):
        n = len(t.keys_t.sorts())
        if meth == "copy":
            return engine.alloc(st, bv)
        if meth == "get":
            mp = as_map(bv)
            return method_call(engine, st, mp, mp, "get", node)
        if meth == "values" and not args:
            keys = V(t.keys_t, bv.c[:n])
            mp = as_map(bv)
            p = z3.Int("vals!p")
            arrs = [z3.Lambda([p], a[keys.c[1][p]]) for a in mp.c[1:]]
            return V(Ty.List(t.v), [keys.c[0]] + arrs)
        if meth == "keys" and not args:
            return V(t.keys_t, bv.c[:n])
    if isinstance(t, Ty.Set):
        if meth in ("add", "discard", "remove"):
            need_ref()
            k = engine.keyterm(engine.deref(st, args[0]))
            if meth == "remove":
                engine.oblige(st, bv.c[0][k], f"removed element present at line {engine.line(node)}", "safety", node)
            st.heap[base.id] = V(t, [z3.Store(bv.c[0], k, meth == "add")])
            return Ty.mk_none()
        if meth == "copy":
            return engine.alloc(st, bv)
        if meth == "union":
            A = bv.c[0]
            for a in args:
                A = z3.SetUnion(A, domain_of(engine, engine.deref(st, a)))
            return engine.alloc(st, V(t, [A]))
        if meth == "clear":
            need_ref()
            st.heap[base.id] = V(t, [z3.K(Ty.IntS, z3.BoolVal(False))])
            return Ty.mk_none()
        if meth == "isdisjoint":
            B = domain_of(engine, engine.deref(st, args[0]))
            return Ty.mk_bool(z3.SetIntersect(bv.c[0], B) == z3.EmptySet(Ty.IntS))
        if meth in ("symmetric_difference", "intersection", "difference", "issubset") and len(args) == 1:
            A, B = bv.c[0], domain_of(engine, engine.deref(st, args[0]))
            if meth == "issubset":
                return Ty.mk_bool(z3.IsSubset(A, B))
            k = z3.Int("sm!k")
            body = {"symmetric_difference": z3.Xor(A[k], B[k]), "intersection": z3.And(A[k], B[k]), "difference": z3.And(A[k], z3.Not(B[k]))}[meth]
            return engine.alloc(st, V(t, [z3.Lambda([k], body)]))
    raise Unsupported(f"method {meth} on {t if t is not None else bv}")


def sort_list(engine, st, ref, lv, node):
    """list.sort() on a list of ints or fixed-arity int tuples: the result is
    a sorted permutation.  Modelled only for length <= 3 lists of known
    length; general lists are havoc'd with 'sorted + same length' and a
    multiset-preservation fact over a count function (assumed contract of
    Python's sort)."""
    ln = z3.simplify(lv.c[0])
    if z3.is_int_value(ln) and ln.as_long() <= 3 and len(lv.c) == 2:
        n = ln.as_long()
        xs = [lv.c[1][i] for i in range(n)]
        ys = sort_terms(xs)
        a = lv.c[1]
        for i, y in enumerate(ys):
            a = z3.Store(a, i, y)
        st.heap[ref.id] = V(lv.t, [lv.c[0], a])
        return Ty.mk_none()
    raise Unsupported("sort of a general list")


def sort_terms(xs):
    """Sorting network on z3 Int terms (n <= 3)."""
    def mn(a, b):
        return z3.If(a <= b, a, b)

    def mx(a, b):
        return z3.If(a <= b, b, a)

    if len(xs) <= 1:
        return list(xs)
    if len(xs) == 2:
        return [mn(*xs), mx(*xs)]
    if len(xs) == 3:
        a, b, c = xs
        lo = mn(mn(a, b), c)
        hi = mx(mx(a, b), c)
        mid = a + b + c - lo - hi
        return [lo, mid, hi]
    raise Unsupported("sort of more than 3 terms")


# --------------------------------------------------------------- builtins
def builtin_call(engine, st, name, node):
    if name == "len":
        v = engine.deref(st, engine.eval(st, node.args[0]))
        if isinstance(v, PyConst):
            return Ty.mk_int(len(v.val))
        if isinstance(v.t, (Ty.List, Ty.ODict)):
            return V(Int, [v.c[0]])
        if isinstance(v.t, Ty.Tuple):
            return Ty.mk_int(len(v.t.ts))
        if isinstance(v.t, (Ty.Map, Ty.Set)):
            card = engine.card(v.c[0])
            return V(Int, [card])
        raise Unsupported(f"len of {v.t}")
    if name in ("min", "max"):
        args = _args(engine, st, node)
        if node.keywords:
            raise Unsupported("min/max with key")
        if len(args) == 1:
            v = engine.deref(st, args[0])
            if isinstance(v, V) and isinstance(v.t, Ty.Tuple):
                args = Ty.split(v.t, v.c)
            else:
                c = engine.external(st, f"builtin_{name}", [args[0]], node)
                if c is not None:
                    return c
                raise Unsupported(f"{name} of a container")
        if name == "max" and len(args) == 2 and any(isinstance(a, V) and isinstance(a.t, Ty.Opt) for a in args):
            # max over extended integers (None == -inf)
            a, b = [engine.coerce(x, Ty.Opt(Int)) for x in args]
            bigger = z3.If(a.c[1] >= b.c[1], a.c[1], b.c[1])
            return V(Ty.Opt(Int), [z3.And(a.c[0], b.c[0]), z3.If(a.c[0], b.c[1], z3.If(b.c[0], a.c[1], bigger))])
        real = any(isinstance(a.t, Ty._Real) for a in args)
        ts = [engine.num(a) for a in args]
        if real:
            ts = [z3.ToReal(x) if x.sort() == Ty.IntS else x for x in ts]
        if getattr(engine.contract, "split_minmax", False) and not engine.spec_mode and len(ts) == 2:
            # case split instead of an if-then-else term (keeps nonlinear goals simple)
            c = ts[0] >= ts[1]
            b = engine.concrete_bool(st, c)
            pick = (ts[0] if b else ts[1]) if name == "max" else (ts[1] if b else ts[0])
            return V(Real if real else Int, [pick])
        r = ts[0]
        for x in ts[1:]:
            r = z3.If(x < r, x, r) if name == "min" else z3.If(x > r, x, r)
        return V(Real if real else Int, [r])
    if name == "abs":
        x = engine.eval(st, node.args[0])
        t = x.term
        return V(x.t, [z3.If(t >= 0, t, -t)])
    if name == "int":
        x = engine.eval(st, node.args[0])
        if isinstance(x.t, Ty._Int):
            return x
        if isinstance(x.t, Ty._Bool):
            return V(Int, [z3.If(x.term, 1, 0)])
        raise Unsupported("int() of non-int")
    if name == "float":
        x = engine.eval(st, node.args[0])
        if isinstance(x, PyConst) and x.val in ("inf", "-inf"):
            if engine.spec_mode:
                return engine.infinity(x.val == "-inf")
            return PyConst(float(x.val))
        return engine.coerce(x, Real)
    if name == "bool":
        return Ty.mk_bool(engine.truth(st, engine.eval(st, node.args[0])))
    if name == "isinstance":
        v = engine.eval(st, node.args[0])
        cls = node.args[1]
        names = [ast.unparse(e) for e in cls.elts] if isinstance(cls, ast.Tuple) else [ast.unparse(cls)]
        return Ty.mk_bool(engine.isinstance_(st, v, names))
    if name == "range":
        # a range object used as a value: the list of its elements
        from .loops import describe_iter

        it, _ = describe_iter(engine, st, node)
        p = z3.Int("rl!p")
        return engine.alloc(st, V(Ty.List(Int), [it.length, z3.Lambda([p], it.elem(p).term)]))
    if name in ("tuple", "list"):
        if not node.args:
            if name == "tuple":
                return Ty.mk_tuple([])
            return engine.e_List(st, ast.List(elts=[], ctx=ast.Load()))
        a = node.args[0]
        if isinstance(a, (ast.GeneratorExp, ast.ListComp)):
            r = comprehension(engine, st, a, "gen" if name == "tuple" else "list")
            if name == "tuple":
                rv = engine.deref(st, r)
                if isinstance(rv, V) and isinstance(rv.t, Ty.List):
                    ln = z3.simplify(rv.c[0])
                    if z3.is_int_value(ln):
                        return Ty.mk_tuple([engine.elem(rv, z3.IntVal(p)) for p in range(ln.as_long())])
                    # a tuple of symbolic length: the same sequence, never mutated
                    return r
            return r
        if isinstance(a, ast.Call) and isinstance(a.func, ast.Name) and a.func.id == "range":
            from .loops import describe_iter

            it, _ = describe_iter(engine, st, a)
            p = z3.Int("rl!p")
            arr = z3.Lambda([p], it.elem(p).term)
            return engine.alloc(st, V(Ty.List(Int), [it.length, arr]))
        if isinstance(a, ast.Call) and isinstance(a.func, ast.Attribute) and a.func.attr in ("items", "values", "keys") and not a.args:
            # tuple(d.items()) of an insertion-ordered dict: the list of its entries, in order
            from .loops import describe_iter, PosIter

            it, _ = describe_iter(engine, st, a)
            if isinstance(it, PosIter):
                p = z3.Int("it!p")
                el = engine.unbox_value(st, it.elem(p))
                return engine.alloc(st, V(Ty.List(el.t), [it.length] + [z3.Lambda([p], c) for c in el.c]))
            raise Unsupported(f"{name}() of an unordered view")
        v = engine.deref(st, engine.eval(st, a))
        if isinstance(v, V) and isinstance(v.t, Ty.List):
            return engine.alloc(st, v)
        if isinstance(v, V) and isinstance(v.t, Ty.Tuple):
            if name == "tuple":
                return v
            parts = Ty.split(v.t, v.c)
            if parts:
                return engine.e_List(st, ast.List(elts=[], ctx=ast.Load())) if False else list_from_values(engine, st, parts)
        if isinstance(v, V) and isinstance(v.t, Ty.ODict):
            return engine.alloc(st, V(v.t.keys_t, v.c[: len(v.t.keys_t.sorts())]))
        if isinstance(v, V) and isinstance(v.t, (Ty.Map, Ty.Set)):
            # the keys of a dict / elements of a set whose order is not modelled: some duplicate-free listing of exactly them
            dom = v.c[0]
            out = Ty.havoc(Ty.List(Key), f"listing@{engine.line(node)}")
            m, b = out.c
            p_, q_, k_ = z3.Ints("ls!p ls!q ls!k")
            where = z3.Function(f"ls!where!{engine.new_id()}", Ty.IntS, Ty.IntS)
            st.assume(m >= 0)
            st.assume(z3.ForAll([p_], z3.Implies(z3.And(0 <= p_, p_ < m), dom[b[p_]]), patterns=[b[p_]]))
            st.assume(z3.ForAll([p_, q_], z3.Implies(z3.And(0 <= p_, p_ < q_, q_ < m), b[p_] != b[q_])))
            st.assume(z3.ForAll([k_], z3.Implies(dom[k_], z3.And(0 <= where(k_), where(k_) < m, b[where(k_)] == k_)), patterns=[dom[k_]]))
            return engine.alloc(st, out)
        raise Unsupported(f"{name}() of {v}")
    if name in ("set", "frozenset"):
        if not node.args:
            return engine.alloc(st, V(Ty.Set(Key), [z3.K(Ty.IntS, z3.BoolVal(False))]))
        v = engine.deref(st, engine.eval(st, node.args[0]))
        return engine.alloc(st, V(Ty.Set(Key), [domain_of(engine, v)]))
    if name == "dict":
        if not node.args and not node.keywords:
            return engine.e_Dict(st, ast.Dict(keys=[], values=[]))
        v = engine.deref(st, engine.eval(st, node.args[0]))
        if isinstance(v, V) and isinstance(v.t, (Ty.Map, Ty.ODict)):
            return engine.alloc(st, v)
        raise Unsupported("dict() of non-dict")
    if name == "sorted":
        v = engine.deref(st, engine.eval(st, node.args[0]))
        rev = False
        for kw in node.keywords:
            if kw.arg == "reverse":
                rv = engine.eval(st, kw.value)
                rev = z3.is_true(z3.simplify(rv.term))
            else:
                raise Unsupported("sorted with key")
        if isinstance(v, V) and isinstance(v.t, Ty.Tuple) and all(isinstance(x, Ty._Int) for x in v.t.ts) and len(v.t.ts) <= 3:
            ys = sort_terms([c for c in v.c])
            if rev:
                ys = list(reversed(ys))
            return list_from_values(engine, st, [V(Int, [y]) for y in ys])
        raise Unsupported("sorted of general iterable")
    if name in ("any", "all"):
        a = node.args[0]
        if isinstance(a, (ast.GeneratorExp, ast.ListComp)):
            return quantified(engine, st, a, name)
        raise Unsupported(f"{name} of non-generator")
    if name == "sum" and isinstance(node.args[0], (ast.GeneratorExp, ast.ListComp)) and len(node.args) == 1:
        return sum_fold(engine, st, node.args[0])
    if name == "sum":
        a = node.args[0]
        v = engine.deref(st, engine.eval(st, a)) if not isinstance(a, (ast.GeneratorExp, ast.ListComp)) else None
        if isinstance(v, V) and isinstance(v.t, Ty.Tuple):
            parts = Ty.split(v.t, v.c)
            r = engine.num(parts[0]) if parts else z3.IntVal(0)
            for p in parts[1:]:
                r = r + engine.num(p)
            return V(Int, [r])
        raise Unsupported("sum of general iterable")
    if name in ("chr", "ord"):
        # characters are modelled by their code points
        x = engine.eval(st, node.args[0])
        if isinstance(x, PyConst) and isinstance(x.val, str) and name == "ord":
            return Ty.mk_int(ord(x.val))
        return V(Key if name == "chr" else Int, [engine.num(x) if name == "chr" else x.term])
    if name == "print":
        return Ty.mk_none()
    if name == "hash":
        v = engine.unbox_value(st, engine.eval(st, node.args[0]))
        return V(Int, [engine.uninterpreted("hash", v)])
    if name == "next":
        raise Unsupported("next()")
    return None


def sum_fold(engine, st, gen):
    """sum(<elt> for x in <sequence>) as a left fold: an uninterpreted function
    of the prefix length with its two defining axioms.  The function symbol is
    keyed by the element term, so the same sum written in a contract denotes
    the same function."""
    from .loops import describe_iter, PosIter, Unroll

    if len(gen.generators) != 1 or gen.generators[0].ifs:
        raise Unsupported("sum over filtered/nested generator")
    g = gen.generators[0]
    it, _ = describe_iter(engine, st, g.iter)
    old = dict(engine.bound)
    try:
        if isinstance(it, Unroll):
            r = z3.IntVal(0)
            for v in it.values:
                bind_comp_target(engine, g.target, v)
                r = r + engine.num(engine.eval(st, gen.elt))
            return V(Int, [r])
        if not isinstance(it, PosIter):
            raise Unsupported("sum over unordered container")
        q = z3.Int("sum!q")
        bind_comp_target(engine, g.target, it.elem(q))
        om = engine.spec_mode
        engine.spec_mode = True  # element must be a pure term
        try:
            e = engine.num(engine.eval(st, gen.elt))
        finally:
            engine.spec_mode = om
    finally:
        engine.bound = old
    folds = engine.__dict__.setdefault("_sum_folds", {})
    key = e.get_id()
    if key not in folds:
        f = z3.Function(f"sumfold!{len(folds)}", Ty.IntS, e.sort())
        t = z3.Int("sum!t")
        arr = z3.Lambda([q], e)
        engine.axioms.append(f(0) == 0)
        engine.axioms.append(z3.ForAll([t], z3.Implies(t > 0, f(t) == f(t - 1) + arr[t - 1]), patterns=[f(t)]))
        folds[key] = f
    return V(Int if e.sort() == Ty.IntS else Real, [folds[key](it.length)])


def list_from_values(engine, st, vals):
    et = vals[0].t
    arrs = []
    for j, s in enumerate(et.sorts()):
        a = z3.K(Ty.IntS, vals[0].c[j])
        for p, v in enumerate(vals):
            a = z3.Store(a, p, v.c[j])
        arrs.append(a)
    return engine.alloc(st, V(Ty.List(et), [z3.IntVal(len(vals))] + arrs))


def bind_comp_target(engine, tgt, val):
    """Bind comprehension target names to (pure) values in engine.bound."""
    if isinstance(tgt, ast.Name):
        engine.bound[tgt.id] = val
    elif isinstance(tgt, (ast.Tuple, ast.List)):
        parts = Ty.split(val.t, val.c)
        for e, p in zip(tgt.elts, parts):
            bind_comp_target(engine, e, p)
    else:
        raise Unsupported("comprehension target")


def quantified(engine, st, node, kind):
    from .loops import describe_iter, PosIter, SetIter, Unroll

    if len(node.generators) != 1:
        raise Unsupported("nested generators")
    g = node.generators[0]
    it, _ = describe_iter(engine, st, g.iter)
    old = dict(engine.bound)
    try:
        if isinstance(it, Unroll):
            res = []
            for v in it.values:
                bind_comp_target(engine, g.target, v)
                conds = [engine.truth(st, engine.eval(st, c)) for c in g.ifs]
                body = engine.truth(st, engine.eval(st, node.elt))
                res.append(z3.Implies(z3.And(*conds), body) if kind == "all" else z3.And(*conds, body))
            return Ty.mk_bool((z3.And if kind == "all" else z3.Or)(*res) if res else z3.BoolVal(kind == "all"))
        q = z3.Int(f"qa!{node.lineno}.{node.col_offset}")
        if isinstance(it, PosIter):
            guard = [0 <= q, q < it.length]
        else:
            guard = [it.dom[q]]
        bind_comp_target(engine, g.target, it.elem(q))
        # obligations raised by the body hold for elements of the iterable only
        st = st.clone()
        st.assume(z3.And(*guard))
        conds = [engine.truth(st, engine.eval(st, c)) for c in g.ifs]
        for c_ in conds:
            st.assume(c_)
        body = engine.truth(st, engine.eval(st, node.elt))
    finally:
        engine.bound = old
    if kind == "all":
        return Ty.mk_bool(z3.ForAll([q], z3.Implies(z3.And(*guard, *conds), body)))
    return Ty.mk_bool(z3.Exists([q], z3.And(*guard, *conds, body)))


def fresh_default_term(srt):
    if srt == Ty.BoolS:
        return z3.BoolVal(False)
    if srt == Ty.RealS:
        return z3.RealVal(0)
    if srt == Ty.IntS:
        return z3.IntVal(0)
    return z3.K(srt.domain(), fresh_default_term(srt.range()))


def comprehension(engine, st, node, kind):
    """Pure map/filter comprehensions become lambda-defined containers."""
    from .loops import describe_iter, PosIter, SetIter, Unroll

    if len(node.generators) != 1:
        raise Unsupported("nested generators")
    g = node.generators[0]
    it, _ = describe_iter(engine, st, g.iter)
    old = dict(engine.bound)
    try:
        if isinstance(it, Unroll):
            if g.ifs:
                raise Unsupported("filter over fixed tuple")
            vals = []
            for v in it.values:
                bind_comp_target(engine, g.target, v)
                if kind == "dict":
                    raise Unsupported("dict comp over tuple")
                vals.append(engine.unbox_value(st, engine.eval(st, node.elt)))
            if kind == "set":
                A = z3.K(Ty.IntS, z3.BoolVal(False))
                for v in vals:
                    A = z3.Store(A, engine.keyterm(v), True)
                return engine.alloc(st, V(Ty.Set(Key), [A]))
            if kind == "list" and vals:
                return list_from_values(engine, st, vals)
            return Ty.mk_tuple(vals)
        q = z3.Int(f"cq!{node.lineno}.{node.col_offset}")
        # safety obligations raised while the element / filter expressions are evaluated
        # hold for elements of the iterable only: evaluate them under that guard
        outer = st
        st = st.clone()
        st.assume(z3.And(0 <= q, q < it.length) if isinstance(it, PosIter) else it.dom[q])
        if isinstance(it, PosIter):
            bind_comp_target(engine, g.target, it.elem(q))
            conds = [engine.truth(st, engine.eval(st, c)) for c in g.ifs]
            for c_ in conds:
                st.assume(c_)
            if kind in ("list", "gen") and conds:
                # [f(x) for x in xs if c(x)]: order-preserving selection.  idx maps output positions to
                # source positions (strictly increasing, all satisfying c), inv maps every source position
                # that satisfies c to its output position: together the exact semantics of filtering.
                val = engine.unbox_value(st, engine.eval(st, node.elt))
                out = Ty.havoc(Ty.List(val.t), f"filtered@{engine.line(node)}")
                m, n = out.c[0], it.length
                tag = f"{node.lineno}.{node.col_offset}!{engine.new_id()}"
                # name the source columns (they may be computed arrays): their elements key the instantiations
                named = []
                for ci_, c in enumerate(val.c):
                    nm = z3.Const(f"flt!src!{tag}!{ci_}", z3.ArraySort(Ty.IntS, c.sort()))
                    outer.assume(z3.ForAll([q], nm[q] == c))
                    named.append(nm[q])
                    base_ = getattr(it, "base", None)
                    if ci_ == 0 and len(val.c) == 1 and base_ is not None and isinstance(base_.py, tuple) and base_.py[0] == "chain" and c.eq(base_.c[1][q]):
                        # a concatenation: tie the named source to each piece, keyed on the piece's own elements
                        off = z3.IntVal(0)
                        for piece in base_.py[1]:
                            pa = piece.c[1]
                            if z3.is_const(pa) or (z3.is_app(pa) and pa.decl().kind() == z3.Z3_OP_UNINTERPRETED) or (z3.is_app(pa) and pa.decl().kind() == z3.Z3_OP_SELECT):
                                outer.assume(z3.ForAll([q], z3.Implies(z3.And(0 <= q, q < piece.c[0]), nm[off + q] == pa[q]), patterns=[pa[q]]))
                            off = off + piece.c[0]
                val = V(val.t, named)
                idx = z3.Function(f"flt!idx!{tag}", Ty.IntS, Ty.IntS)
                inv = z3.Function(f"flt!inv!{tag}", Ty.IntS, Ty.IntS)
                a_, b_ = z3.Ints("flt!a flt!b")
                cnd = z3.And(*conds)
                sub = lambda e, x: z3.substitute(e, (q, x))
                outer.assume(z3.And(0 <= m, m <= n))
                outer.assume(z3.ForAll([a_], z3.Implies(z3.And(0 <= a_, a_ < m), z3.And(
                    0 <= idx(a_), idx(a_) < n, sub(cnd, idx(a_)), inv(idx(a_)) == a_,
                    *[arr[a_] == sub(c, idx(a_)) for arr, c in zip(out.c[1:], val.c)])), patterns=[out.c[1][a_]] if len(out.c) > 1 else [idx(a_)]))
                outer.assume(z3.ForAll([a_, b_], z3.Implies(z3.And(0 <= a_, a_ < b_, b_ < m), idx(a_) < idx(b_))))
                src_pat = val.c[0] if (val.c and z3.is_app(val.c[0]) and val.c[0].decl().kind() == z3.Z3_OP_SELECT) else None
                outer.assume(z3.ForAll([q], z3.Implies(z3.And(0 <= q, q < n, cnd), z3.And(0 <= inv(q), inv(q) < m, idx(inv(q)) == q,
                                                                                            *[arr[inv(q)] == c for arr, c in zip(out.c[1:], val.c)])),
                                       patterns=[src_pat] if src_pat is not None else [inv(q)]))
                return engine.alloc(outer, out)
            if kind in ("list", "gen") and isinstance(node.elt, ast.Dict) and not node.elt.keys:
                # [{} for _ in range(n)]: n empty dicts of the element type declared for the target
                ht = engine.contract.hints.get(getattr(node, "_target_name", None))
                if isinstance(ht, Ty.List) and isinstance(ht.e, Ty.Map):
                    empty = [z3.K(Ty.IntS, z3.BoolVal(False))] + [z3.K(Ty.IntS, fresh_default_term(srt)) for srt in ht.e.v.sorts()]
                    return engine.alloc(outer, V(ht, [it.length] + [z3.K(Ty.IntS, c) for c in empty]))
            if kind in ("list", "gen"):
                val = engine.unbox_value(st, engine.eval(st, node.elt))
                arrs = [z3.Lambda([q], c) for c in val.c]
                return engine.alloc(outer, V(Ty.List(val.t), [it.length] + arrs))
            if kind == "set":
                val = engine.keyterm(engine.eval(st, node.elt))
                k = z3.Int("cs!k")
                body = z3.Exists([q], z3.And(0 <= q, q < it.length, *conds, val == k))
                return engine.alloc(outer, V(Ty.Set(Key), [z3.Lambda([k], body)]))
            if kind == "dict":
                # {key(q): value(q) for q in positions if cond(q)}: the last
                # position with a given key wins (Python semantics); `pos` is the
                # Skolem function of "the last such position", which exists
                # because the range is finite
                kq = engine.keyterm(engine.eval(st, node.key))
                val = engine.unbox_value(st, engine.eval(st, node.value))
                t = engine.hint_type(node, Ty.Map(Key, val.t))
                val = engine.coerce(val, t.v)
                k, q2 = z3.Int("cd!k"), z3.Int("cd!q2")
                inr = z3.And(0 <= q, q < it.length, *conds)
                sub = lambda e, x: z3.substitute(e, (q, x))
                dom = z3.Lambda([k], z3.Exists([q], z3.And(inr, kq == k)))
                pos = z3.Function(f"cd!pos!{node.lineno}.{node.col_offset}!{engine.new_id()}", Ty.IntS, Ty.IntS)
                outer.assume(z3.ForAll([k], z3.Implies(dom[k], z3.And(
                    sub(inr, pos(k)), sub(kq, pos(k)) == k,
                    z3.ForAll([q2], z3.Implies(z3.And(pos(k) < q2, sub(inr, q2)), sub(kq, q2) != k)))), patterns=[pos(k)]))
                # every position's key is in the domain (instantiation help)
                outer.assume(z3.ForAll([q], z3.Implies(inr, z3.And(dom[kq], pos(kq) >= q)) ))
                return engine.alloc(outer, V(t, [dom] + [z3.Lambda([k], sub(c, pos(k))) for c in val.c]))
            raise Unsupported("unsupported comprehension kind over a sequence")
        # SetIter: element is a function of the key q
        bind_comp_target(engine, g.target, it.elem(q))
        conds = [engine.truth(st, engine.eval(st, c)) for c in g.ifs]
        for c_ in conds:
            st.assume(c_)
        guard = z3.And(it.dom[q], *conds)
        if kind == "dict":
            kv = engine.eval(st, node.key)
            if not (isinstance(kv, V) and kv.term.eq(q)):
                raise Unsupported("dict comprehension re-keys its source")
            val = engine.unbox_value(st, engine.eval(st, node.value))
            t = engine.hint_type(node, Ty.Map(Key, val.t))
            val = engine.coerce(val, t.v)
            return engine.alloc(outer, V(t, [z3.Lambda([q], guard)] + [z3.Lambda([q], c) for c in val.c]))
        if kind == "set":
            kv = engine.eval(st, node.elt)
            if isinstance(kv, V) and kv.term.eq(q):
                return engine.alloc(outer, V(Ty.Set(Key), [z3.Lambda([q], guard)]))
            raise Unsupported("set comprehension re-keys its source")
        if kind in ("list", "gen") and not conds:
            # [f(k, v) for k, v in d.items()]: a dict is a FINITE collection and iterating it visits every
            # key exactly once, in some order: positions 0..n-1 and keys are in bijection (keyat / pos)
            val = engine.unbox_value(st, engine.eval(st, node.elt))
            tag = f"{node.lineno}.{node.col_offset}!{engine.new_id()}"
            n = z3.Int(f"cl!n!{tag}")
            keyat = z3.Function(f"cl!keyat!{tag}", Ty.IntS, Ty.IntS)
            pos = z3.Function(f"cl!pos!{tag}", Ty.IntS, Ty.IntS)
            p_, k_ = z3.Int("cl!p"), z3.Int("cl!k")
            outer.assume(n >= 0)
            outer.assume(z3.ForAll([p_], z3.Implies(z3.And(0 <= p_, p_ < n), z3.And(it.dom[keyat(p_)], pos(keyat(p_)) == p_)), patterns=[keyat(p_)]))
            pats = [pos(k_)] + ([it.dom[k_]] if z3.is_const(it.dom) and it.dom.decl().kind() == z3.Z3_OP_UNINTERPRETED else [])
            outer.assume(z3.ForAll([k_], z3.Implies(it.dom[k_], z3.And(0 <= pos(k_), pos(k_) < n, keyat(pos(k_)) == k_)), patterns=pats))
            arrs = [z3.Lambda([p_], z3.substitute(c, (q, keyat(p_)))) for c in val.c]
            return engine.alloc(outer, V(Ty.List(val.t), [n] + arrs))
        raise Unsupported("list comprehension over unordered container")
    finally:
        engine.bound = old


# ---------------------------------------------------------------- modular
def modular_call(engine, st, callee, argmap, node, self_val=None):
    """assert pre; havoc modifies; assume post."""
    from .verify import bind_params_for_call

    env = {}
    if self_val is not None:
        env["self"] = self_val
    env.update(argmap)
    site = f"{callee.short}@{engine.line(node)}"
    engine.fired_calls = getattr(engine, "fired_calls", [])
    engine.fired_calls.append(site)
    saved = (engine.contract, engine.specfns, dict(engine.bound))
    engine.contract = callee
    engine.specfns = dict(saved[1])
    # callee parameters are visible by name while its spec is evaluated
    engine.bound = dict(saved[2])
    engine.bound.update(env)
    try:
        tmp_axioms = len(engine.axioms)
        if callee.spec:
            engine.setup_spec(st)
        for j, pre in enumerate(callee.requires):
            g = engine.eval_spec(st, pre)
            engine.oblige(st, g, f"call-site precondition {j} of {callee.short} at line {engine.line(node)}: {pre}", "call-pre", node)
        old_snapshot = (dict(st.vars), st.heap.plain())
        # result
        res = None
        if callee.returns is not None:
            rt = callee.returns
            if isinstance(rt, ObjT):
                raise Unsupported("callee returning object")
            rv = engine.havoc_t(st, rt, f"ret.{callee.short}", node)
            for f in Ty.wf(rv, f"ret.{callee.short}"):
                st.assume(f)
            res = engine.alloc(st, rv) if rt.mutable else rv
        else:
            res = Ty.mk_none()
        # havoc modifies
        from .loops import havoc_path

        for m in callee.modifies:
            parts = m.split(".")
            root = env.get(parts[0])
            if root is not None:
                havoc_path(engine, st, node, root, tuple(parts[1:]), f"{site}.{m}")
        prev_old = st.old
        st.old = old_snapshot
        try:
            for post in callee.ensures:
                g = engine.eval_spec(st, post, {"result": res})
                st.assume(g)
        finally:
            st.old = prev_old
        # proved lemmas of the callee travel with its contract
        for lem in callee.lemma_axioms(engine, st):
            st.assume(lem)
    finally:
        engine.contract, engine.specfns, engine.bound = saved
    return res


def eval_call(engine, st, node):
    f = node.func
    if isinstance(f, ast.Name):
        name = f.id
        if engine.spec_mode or name in engine.specfns:
            r = spec_call(engine, st, name, node)
            if r is not None:
                return r
        local = st.vars.get(name)
        if isinstance(local, PyConst) and isinstance(local.val, tuple) and local.val and local.val[0] in ("lambda", "def"):
            return inline_local(engine, st, local.val, node)
        if local is not None and isinstance(local, PyConst) and callable(local.val):
            ext = engine.external(st, getattr(local.val, "__name__", name), _args(engine, st, node), node)
            if ext is not None:
                return ext
        if name in engine.contract.externals and local is None and getattr(engine.contract.externals[name], "raw", False):
            ext = engine.contract.externals[name](engine, st, None, node, {})
            if ext is not None:
                return ext
        elif name in engine.contract.externals and local is None:
            ext = engine.external(st, name, _args(engine, st, node), node, _kwargs(engine, st, node))
            if ext is not None:
                return ext
        callee = engine.resolve_function_contract(name)
        if callee is not None and local is None:
            args = _args(engine, st, node)
            kw = _kwargs(engine, st, node)
            argmap = callee.bind(args, kw, engine, st)
            return modular_call(engine, st, callee, argmap, node)
        r = builtin_call(engine, st, name, node)
        if r is not None:
            return r
        ext = engine.external(st, name, _args(engine, st, node), node, _kwargs(engine, st, node))
        if ext is not None:
            return ext
        raise Unsupported(f"call to {name}")
    if isinstance(f, ast.Attribute):
        base = engine.eval(st, f.value)
        bv = engine.deref(st, base)
        meth = f.attr
        if isinstance(bv, Obj):
            if f"{bv.cls}.{meth}" in engine.contract.externals:
                # the contract under proof states its own (assumed) view of this callee
                return engine.external(st, f"{bv.cls}.{meth}", [base] + _args(engine, st, node), node, _kwargs(engine, st, node))
            callee = engine.registry.get(f"{bv.cls}.{meth}") or engine.registry.get_method(bv.cls, meth)
            if callee is not None:
                args = _args(engine, st, node)
                kw = _kwargs(engine, st, node)
                argmap = callee.bind(args, kw, engine, st, skip_self=True)
                return modular_call(engine, st, callee, argmap, node, self_val=base)
            ext = engine.external(st, f"{bv.cls}.{meth}", [base] + _args(engine, st, node), node, _kwargs(engine, st, node))
            if ext is not None:
                return ext
            raise Unsupported(f"method {bv.cls}.{meth} has no contract")
        if isinstance(bv, PyConst):
            target = getattr(bv.val, meth, None)
            qual = f"{getattr(bv.val, '__name__', type(bv.val).__name__)}.{meth}"
            ext = engine.external(st, qual, _args(engine, st, node), node, _kwargs(engine, st, node))
            if ext is not None:
                return ext
            raise Unsupported(f"call to {qual}")
        from .engine import MUTATORS

        if (meth in MUTATORS and isinstance(bv, V) and not isinstance(base, Ref) and bv.t.mutable and isinstance(f.value, ast.Call)
                and isinstance(f.value.func, ast.Attribute) and f.value.func.attr == "setdefault" and len(f.value.args) == 2):
            # d.setdefault(k, v).mutate(...): the value returned IS the entry of d
            vref = engine.view_of_entry(st, f.value.func.value, f.value.args[0], bv)
            if isinstance(vref, Ref):
                return method_call(engine, st, vref, st.heap[vref.id], meth, node)
        if meth in MUTATORS and isinstance(bv, V) and not isinstance(base, Ref) and bv.t.mutable and isinstance(f.value, (ast.Subscript, ast.Attribute, ast.Name)):
            # mutating a container held by value inside another container:
            # run the method on a temporary and write the result back
            tmp = engine.alloc(st, bv)
            res = method_call(engine, st, tmp, bv, meth, node)
            engine.lv_set(st, f.value, st.heap[tmp.id], node)
            return res
        if f"*.{meth}" in engine.contract.externals:
            ext = engine.external(st, f"*.{meth}", [base] + _args(engine, st, node), node, _kwargs(engine, st, node))
            if ext is not None:
                return ext
        return method_call(engine, st, base, bv, meth, node)
    ext = engine.external(st, "call:" + ast.unparse(f), _args(engine, st, node), node, _kwargs(engine, st, node))
    if ext is not None:
        return ext
    raise Unsupported("call of computed function")


def inline_local(engine, st, desc, node):
    kind, fn = desc
    args = _args(engine, st, node)
    names = [a.arg for a in fn.args.args]
    if len(names) != len(args):
        raise Unsupported("local call arity")
    old = dict(engine.bound)
    for n, a in zip(names, args):
        engine.bound[n] = a
    try:
        if kind == "lambda":
            return engine.eval(st, fn.body)
        body = [s for s in fn.body if not (isinstance(s, ast.Expr) and isinstance(s.value, ast.Constant))]
        if len(body) == 1 and isinstance(body[0], ast.Return):
            return engine.eval(st, body[0].value)
        raise Unsupported("local def with statements")
    finally:
        engine.bound = old


def exec_with(engine, st, stmt):
    """`with open(...) as f:` is only modelled through external effects."""
    ctxs = []
    for it in stmt.items:
        v = engine.eval(st, it.context_expr)
        ctxs.append(v)
        if it.optional_vars is not None:
            engine.assign_target(st, it.optional_vars, v, stmt)
    outs = engine.exec_block(st, stmt.body)
    res = []
    for s, oc in outs:
        for v in reversed(ctxs):
            engine.external(s, "__exit__", [v], stmt)
        res.append((s, oc))
    return res
