"""Sums and counts over a column of a list of records, as recursive functions
of an array and a prefix length, with the point-update lemmas that loops of
the form  `total += new - old; rows[i] = (..., new)`  need.

  SUM(A, t)    = 0 if t <= 0 else SUM(A, t-1) + A[t-1]
  CNT(A, k, t) = 0 if t <= 0 else CNT(A, k, t-1) + (1 if A[t-1] == k else 0)

Lemmas (each PROVED here by induction on t, with the definitions unfolded by
hand so that the queries are quantifier-free, before it is used as an axiom;
the proofs are reported as obligations of kind 'library-lemma'):
  L1  SUM(A[i:=v], t)    == SUM(A, t)    + (v - A[i] if 0 <= i < t else 0)
  L2  CNT(A[i:=v], k, t) == CNT(A, k, t) + ((v==k) - (A[i]==k) if 0 <= i < t else 0)
  L3  CNT(A, k, t) >= 0
  L4  0 <= i < t  ->  CNT(A, A[i], t) >= 1
  L5  CNT(A, k, t) >= 1  ->  0 <= WIT(A,k,t) < t  and  A[WIT(A,k,t)] == k
      where WIT(A,k,t) = t-1 if A[t-1] == k else WIT(A,k,t-1)   (a witness position)
"""

import time

import z3

IntS = z3.IntSort()
ArrS = z3.ArraySort(IntS, IntS)


def _b2i(b):
    return z3.If(b, 1, 0)


def theory(engine):
    if "colsum!SUM" in engine.specfns:
        return engine.specfns["colsum!SUM"][0], engine.specfns["colsum!CNT"][0]
    SUM = z3.Function("colsum!SUM", ArrS, IntS, IntS)
    CNT = z3.Function("colsum!CNT", ArrS, IntS, IntS, IntS)
    WIT = z3.Function("colsum!WIT", ArrS, IntS, IntS, IntS)
    engine.specfns["colsum!SUM"] = (SUM, ["A", "t"], None, None)
    engine.specfns["colsum!CNT"] = (CNT, ["A", "k", "t"], None, None)
    A = z3.Const("cs!A", ArrS)
    t, i, v, k = z3.Ints("cs!t cs!i cs!v cs!k")
    S = z3.Store(A, i, v)

    def dsum(a, tt):
        return SUM(a, tt) == z3.If(tt <= 0, 0, SUM(a, tt - 1) + a[tt - 1])

    def dcnt(a, kk, tt):
        return CNT(a, kk, tt) == z3.If(tt <= 0, 0, CNT(a, kk, tt - 1) + _b2i(a[tt - 1] == kk))

    def L1(tt):
        return SUM(S, tt) == SUM(A, tt) + z3.If(z3.And(0 <= i, i < tt), v - A[i], 0)

    def L2(tt):
        return CNT(S, k, tt) == CNT(A, k, tt) + z3.If(z3.And(0 <= i, i < tt), _b2i(v == k) - _b2i(A[i] == k), 0)

    def L3(tt):
        return CNT(A, k, tt) >= 0

    def L4(tt):
        return z3.Implies(z3.And(0 <= i, i < tt), CNT(A, A[i], tt) >= 1)

    def dwit(a, kk, tt):
        return WIT(a, kk, tt) == z3.If(a[tt - 1] == kk, tt - 1, WIT(a, kk, tt - 1))

    def L5(tt):
        return z3.Implies(CNT(A, k, tt) >= 1, z3.And(0 <= WIT(A, k, tt), WIT(A, k, tt) < tt, A[WIT(A, k, tt)] == k))

    proofs = []

    def prove(name, hyps, goal):
        s = z3.Solver()
        s.set("timeout", 20000)
        for h in hyps:
            s.add(h)
        s.add(z3.Not(goal))
        t0 = time.time()
        r = s.check()
        proofs.append({"label": f"library lemma {name}", "kind": "library-lemma", "status": "discharged" if r == z3.unsat else ("refuted" if r == z3.sat else "unknown"),
                       "backend": "z3", "time_s": time.time() - t0, "detail": None, "line": None})

    # induction on t (t <= 0: base, by the definitions at t; step t -> t+1 for t >= 0)
    prove("L1 base", [t <= 0, dsum(S, t), dsum(A, t)], L1(t))
    prove("L1 step", [t >= 0, L1(t), dsum(S, t + 1), dsum(A, t + 1)], L1(t + 1))
    prove("L2 base", [t <= 0, dcnt(S, k, t), dcnt(A, k, t)], L2(t))
    prove("L2 step", [t >= 0, L2(t), dcnt(S, k, t + 1), dcnt(A, k, t + 1)], L2(t + 1))
    prove("L3 base", [t <= 0, dcnt(A, k, t)], L3(t))
    prove("L3 step", [t >= 0, L3(t), dcnt(A, k, t + 1)], L3(t + 1))
    kk = A[i]
    prove("L4 base", [t <= 0], L4(t))
    prove("L4 step", [t >= 0, L4(t), z3.substitute(L3(t), (k, kk)), dcnt(A, kk, t + 1)], L4(t + 1))
    prove("L5 base", [t <= 0, dcnt(A, k, t)], L5(t))
    prove("L5 step", [t >= 0, L5(t), dcnt(A, k, t + 1), dwit(A, k, t + 1)], L5(t + 1))
    engine.library_lemmas = getattr(engine, "library_lemmas", []) + proofs
    if all(p["status"] == "discharged" for p in proofs):
        ax = engine.axioms
        ax.append(z3.ForAll([A, t], dsum(A, t), patterns=[SUM(A, t)]))
        ax.append(z3.ForAll([A, k, t], dcnt(A, k, t), patterns=[CNT(A, k, t)]))
        ax.append(z3.ForAll([A, i, v, t], L1(t), patterns=[SUM(S, t)]))
        ax.append(z3.ForAll([A, i, v, k, t], L2(t), patterns=[CNT(S, k, t)]))
        ax.append(z3.ForAll([A, k, t], L3(t), patterns=[CNT(A, k, t)]))
        ax.append(z3.ForAll([A, i, t], L4(t), patterns=[z3.MultiPattern(CNT(A, A[i], t))]))
        ax.append(z3.ForAll([A, k, t], L5(t), patterns=[CNT(A, k, t)]))
    return SUM, CNT


def column(engine, st, lst, field):
    """the z3 array holding tuple field `field` of every element of list value `lst`"""
    from . import types as Ty

    et = lst.t.e
    if isinstance(et, Ty.Tuple):
        off = sum(len(x.sorts()) for x in et.ts[:field])
        if len(et.ts[field].sorts()) != 1:
            raise ValueError("column of a non-scalar field")
        return lst.c[1 + off]
    if field == 0 and len(et.sorts()) == 1:
        return lst.c[1]
    raise ValueError("column of this element type")
