"""Sidecar contract objects (DESIGN.md section 2.1)."""

from __future__ import annotations

import ast
import textwrap

from . import types as Ty


class Loop:
    def __init__(self, inv, pos=None, seen=None, step=(), ghosts=None, cuts=None):
        self.inv = list(inv)
        # cuts: {index of a top-level statement of the loop body: [facts]} -
        # intermediate assertions proved (and then assumed) right before that
        # statement (stepping stones for the solver; they add no assumption)
        self.cuts = dict(cuts or {})
        # ghost loop variables: name -> (init expression, per-iteration update
        # expression; prev(e) refers to the start of the iteration)
        self.ghosts = dict(ghosts or {})
        # two-state clauses checked at the end of an arbitrary iteration;
        # prev(e) is e evaluated at the start of that iteration
        self.step = list(step)
        self.pos = pos  # name under which the position counter is visible
        self.seen = seen  # name of the ghost 'visited keys' set


class Lemma:
    """forall var in [lo, hi]: claim   proved by induction ('up' from lo or
    'down' from hi) or directly (induction=None)."""

    def __init__(self, name, var, lo, hi, claim, induction="up", via=(), assume=True):
        self.name, self.var, self.lo, self.hi, self.claim = name, var, lo, hi, claim
        self.induction = induction
        # via: instance facts (each proved from the axioms first); the claim
        # is then proved from these alone, quantifier-free, so that the
        # nonlinear solver is not drowned by quantified axioms
        self.via = list(via)
        # assume=False: the lemma is a stated consequence (proved, reported) that
        # later obligations do not need; keeping it out keeps their queries small
        self.assume = assume


class Contract:
    def __init__(
        self,
        target,
        params,
        requires=(),
        ensures=(),
        loops=None,
        spec=None,
        spec_types=None,
        lets=None,
        lemmas=(),
        modifies=(),
        returns=None,
        raises=None,
        hints=None,
        properties=None,
        externals=None,
        props=(),
        self_type=None,
        assumptions=(),
        canary=True,
        nloops=None,
        defaults=None,
        mutants=(),
        gen=None,
        pure_check=False,
        ensures_rt=(),
        ensures_t1=(),
        ghost=None,
        variant=None,
    ):
        self.target = target
        self.params = dict(params)  # name -> type (order = positional order)
        self.argnames = list(self.params)
        self.requires = list(requires)
        self.ensures = list(ensures)
        self.loops = dict(loops or {})
        self.spec = dict(spec or {})
        self.spec_types = dict(spec_types or {})
        self.lets = dict(lets or {})
        self.lemmas = list(lemmas)
        self.modifies = list(modifies)
        self.returns = returns
        self.raises = dict(raises or {})  # exc name -> condition (in pre-state) under which it MAY be raised
        self.hints = dict(hints or {})
        self.properties = dict(properties or {})
        self.externals = dict(externals or {})
        self.props = list(props)
        self.self_type = self_type
        self.assumptions = list(assumptions)
        self.canary = canary
        # solver strategy only (no semantic content): try the derived bag/cardinality hints before a full plain attempt
        self.prefer_hints = False
        self.nloops = nloops
        self.defaults = dict(defaults or {})
        self.mutants = list(mutants)
        self.gen = gen
        # postconditions evaluated only by the run-time monitor (outside the
        # prover's expression subset; never counted as proved)
        self.ensures_rt = list(ensures_rt)
        # postconditions only the prover evaluates (mention ghost state that
        # has no native counterpart)
        self.ensures_t1 = list(ensures_t1)
        # ghost parameters: name -> (type, native expression); symbolically a
        # fresh value constrained by `requires`
        self.ghost = dict(ghost or {})
        self.variant = variant
        self.short = target.split(":")[1] + (f"#{variant}" if variant else "")
        self.key = target + (f"#{variant}" if variant else "")
        self.proved_lemmas = []

    def bind(self, args, kwargs, engine, st, skip_self=False):
        names = [n for n in self.argnames if not (skip_self and n == "self")]
        if names and names[0] == "self" and not skip_self:
            pass
        out = {}
        for n, a in zip(names, args):
            out[n] = a
        for k, v in kwargs.items():
            if k not in names:
                from .engine import Unsupported

                raise Unsupported(f"unknown keyword {k} for {self.short}")
            out[k] = v
        for n in names:
            if n not in out:
                if n in self.defaults:
                    out[n] = engine.eval(st, ast.parse(self.defaults[n], mode="eval").body)
                else:
                    from .engine import Unsupported

                    raise Unsupported(f"missing argument {n} for {self.short}")
        return out

    def lemma_axioms(self, engine, st):
        out = []
        for lem in self.proved_lemmas:
            out.append(engine.lemma_formula(st, lem))
        return out


class Registry:
    def __init__(self):
        self.by_target = {}

    def add(self, c):
        # variants (same function, different parameter typing) are verified
        # separately; callers resolve the un-suffixed contract
        self.by_target[c.key] = c
        return c

    def get(self, key):
        # key: "module:qual" or "Class.meth"
        if key in self.by_target:
            return self.by_target[key]
        for t, c in self.by_target.items():
            if t.split(":")[1] == key:
                return c
        return None

    def get_method(self, cls, meth):
        return self.get(f"{cls}.{meth}")

    def all(self):
        return list(self.by_target.values())
