"""pyvc: forward symbolic execution of real Python source -> verification
conditions for z3.

The function's source is re-read from the working tree with inspect/ast on
every run.  Loops are cut by sidecar invariants (entry / preservation / use),
calls to contracted functions are replaced by their contracts, everything else
outside the subset raises Unsupported (reported as UNDECIDED, never as a
violation).

Python semantics assumed (listed in every evidence file):
  * ints are mathematical; // and % are floor division/modulo, and every
    division generates the obligation "divisor > 0" (negative divisors are
    outside the subset);
  * dict/set iteration visits every key exactly once, in an arbitrary order
    (ODict: insertion order); the iterated container is not mutated;
  * distinct parameters do not alias unless the contract says so;
  * decorators are dropped (lru_cache / cached_node_property / wraps /
    staticmethod / classmethod), docstrings and `if progbar:` branches too;
  * partial correctness only (termination is not proved).
"""

from __future__ import annotations

import ast
import copy as _copy
import importlib
import inspect
import textwrap

import z3

from . import types as Ty
from .types import V, Int, Bool, Key, Real, NoneT


class Unsupported(Exception):
    pass


class NeedSplit(Exception):
    def __init__(self, cond):
        self.cond = cond


class PathEnd(Exception):
    """Current path is infeasible / terminated."""


class Ref:
    __slots__ = ("id", "t")

    def __init__(self, id_, t):
        self.id, self.t = id_, t

    def __repr__(self):
        return f"Ref({self.id}:{self.t})"


class Obj:
    """Mutable heap object with named fields (values are V or Ref)."""

    def __init__(self, cls, fields):
        self.cls = cls
        self.fields = dict(fields)

    def clone(self):
        return Obj(self.cls, self.fields)


class ObjT(Ty.T):
    """Type of a heap object: field name -> type."""

    kind = "obj"
    mutable = True

    def __init__(self, cls, fields):
        self.cls = cls
        self.fields = dict(fields)

    def sorts(self):
        return []

    def __repr__(self):
        return f"obj:{self.cls}"


class PyConst:
    """A concrete Python constant that is not modelled symbolically (str, fn)."""

    def __init__(self, val):
        self.val = val

    def __repr__(self):
        return f"PyConst({self.val!r})"


class Heap(dict):
    """The heap, with *views*: a name bound to a mutable value that lives inside a
    dict (x = d[k]; for k, x in d.items()) shares it with the dict.  The view's
    content is written back into the container whenever the container is read
    (lazy flush); once the container is written directly the view is stale and
    any further use of it leaves the modelled subset (Unsupported), so nothing
    is ever silently lost."""

    def __init__(self, *a):
        super().__init__(*a)
        self.views = []  # [view id, container id, key term, stale]
        self.busy = False

    def clone(self):
        h = Heap(self)
        h.views = [list(v) for v in self.views]
        return h

    def plain(self):
        """a flushed plain-dict copy (snapshots for old(...))"""
        self.flush()
        return dict(self)

    def flush(self, cont=None):
        if self.busy or not self.views:
            return
        self.busy = True
        try:
            for v in self.views:
                if v[3] or (cont is not None and v[1] != cont):
                    continue
                c, x = dict.__getitem__(self, v[1]), dict.__getitem__(self, v[0])
                t = c.t
                if isinstance(t, Ty.List):
                    comps = [c.c[0]] + [z3.Store(a, v[2], xc) for a, xc in zip(c.c[1:], x.c)]
                elif isinstance(t, Ty.ODict):
                    n = len(t.keys_t.sorts())
                    comps = list(c.c[: n + 1]) + [z3.Store(a, v[2], xc) for a, xc in zip(c.c[n + 1 :], x.c)]
                else:
                    comps = [c.c[0]] + [z3.Store(a, v[2], xc) for a, xc in zip(c.c[1:], x.c)]
                dict.__setitem__(self, v[1], V(t, comps))
        finally:
            self.busy = False

    def __getitem__(self, i):
        if self.views and not self.busy:
            for v in self.views:
                if v[0] == i and v[3]:
                    raise Unsupported("an alias of a dict entry is used after the dict itself was changed")
            if any(v[1] == i and not v[3] for v in self.views):
                self.flush(i)
        return dict.__getitem__(self, i)

    def __setitem__(self, i, val):
        if self.views and not self.busy:
            for v in self.views:
                if v[1] == i and not v[3]:
                    v[3] = True
        dict.__setitem__(self, i, val)

    def add_view(self, view_id, cont_id, key):
        self.flush(cont_id)
        # an older view of the same entry would fight with the new one
        for v in self.views:
            if v[1] == cont_id and not v[3]:
                v[3] = True
        self.views.append([view_id, cont_id, key, False])


class Obligation:
    def __init__(self, label, kind, pc, goal, lineno=None):
        self.label, self.kind, self.pc, self.goal, self.lineno = label, kind, pc, goal, lineno


class State:
    def __init__(self):
        self.vars = {}
        self.heap = Heap()
        self.pc = []
        self.nstmt = 0
        self.old = None  # pre-state snapshot (vars, heap)
        self.loopvars = {}
        self.catch = ()
        self.caught = None

    def clone(self):
        s = State.__new__(State)
        s.vars = dict(self.vars)
        s.heap = self.heap.clone()
        s.pc = list(self.pc)
        s.nstmt = self.nstmt
        s.old = self.old
        s.loopvars = dict(self.loopvars)
        s.catch = self.catch
        s.caught = self.caught
        if hasattr(self, "iter_old"):
            s.iter_old = self.iter_old
        if hasattr(self, "loop_entry"):
            s.loop_entry = self.loop_entry
        return s

    def assume(self, c):
        if isinstance(c, bool):
            c = z3.BoolVal(c)
        self.pc.append(c)

    def decided(self, cond):
        c = z3.simplify(cond)
        if z3.is_true(c):
            return True
        if z3.is_false(c):
            return False
        for p in self.pc:
            if p.eq(cond) or p.eq(c):
                return True
            if z3.is_not(p) and (p.arg(0).eq(cond) or p.arg(0).eq(c)):
                return False
        nc = z3.simplify(z3.Not(cond))
        for p in self.pc:
            if p.eq(nc):
                return False
        return None


MUTATORS = {
    "append", "pop", "add", "discard", "extend", "insert", "sort", "clear", "update",
    "setdefault", "remove", "popitem",
}


def _is_progbar_test(test):
    return isinstance(test, ast.Name) and test.id == "progbar"


class Engine:
    """Symbolic executor for one function under one contract."""

    def __init__(self, contract, registry, feasibility=True):
        self.contract = contract
        self.registry = registry  # qualname -> Contract
        self.obligations = []
        self.axioms = []  # global axioms (spec fns, lemmas)
        self.specfns = {}
        self.loop_ordinals = {}
        self.feas = feasibility
        self.dropped = []
        self.paths_done = 0
        self.module = None
        self.cls = None
        self._ids = 0
        self.spec_mode = False
        self.bound = {}  # bound (quantified) names during spec evaluation
        self._name_ctr = {}

    # ------------------------------------------------------------------ util
    def new_id(self):
        self._ids += 1
        return self._ids

    def fresh(self, st, purpose, node, sort):
        ln = getattr(node, "lineno", 0)
        co = getattr(node, "col_offset", 0)
        base = f"{purpose}@{ln}.{co}!s{st.nstmt}"
        k = self._name_ctr.get((id(st), base), 0)
        # deterministic per (state-progress, site): the re-execution of a
        # statement after a NeedSplit must create the same constants
        n = st.__dict__.setdefault("_fresh_n", {})
        i = n.get(base, 0)
        n[base] = i + 1
        return z3.Const(f"{base}#{i}", sort)

    def havoc_t(self, st, t, purpose, node):
        return V(t, [self.fresh(st, f"{purpose}.{j}", node, s) for j, s in enumerate(t.sorts())])

    def alloc(self, st, val):
        """Put a mutable value on the heap and return a Ref."""
        i = self.new_id()
        st.heap[i] = val
        return Ref(i, val.t if isinstance(val, V) else ObjT(val.cls, {}))

    def deref(self, st, x):
        if isinstance(x, Ref):
            return st.heap[x.id]
        return x

    def box(self, st, v):
        """Heap-allocate if the type is a mutable container."""
        if isinstance(v, V) and v.t.mutable:
            return self.alloc(st, v)
        return v

    def oblige(self, st, goal, label, kind="assert", node=None):
        if isinstance(goal, bool):
            goal = z3.BoolVal(goal)
        d = st.decided(goal)
        if d is True:
            ob = Obligation(label, kind, [], z3.BoolVal(True), getattr(node, "lineno", None))
            ob.trivial = True
            self.obligations.append(ob)
            return
        self.obligations.append(Obligation(label, kind, list(st.pc), goal, getattr(node, "lineno", None)))
        st.assume(goal)

    # -------------------------------------------------------------- source
    def load_source(self):
        modname, qual = self.contract.target.split(":")
        mod = importlib.import_module(modname)
        self.module = mod
        obj = mod
        parts = qual.split(".")
        for p in parts:
            if isinstance(obj, type):
                self.cls = obj
                obj = obj.__dict__[p]
            else:
                obj = getattr(obj, p)
        # unwrap decorators mechanically
        seen = 0
        while True:
            if isinstance(obj, (staticmethod, classmethod)):
                obj = obj.__func__
                self.dropped.append("staticmethod/classmethod wrapper")
            elif hasattr(obj, "__wrapped__"):
                obj = obj.__wrapped__
                self.dropped.append("decorator (functools.wraps/lru_cache) dropped")
            elif isinstance(obj, property):
                obj = obj.fget
            else:
                break
            seen += 1
            if seen > 5:
                break
        src = textwrap.dedent(inspect.getsource(obj))
        tree = ast.parse(src)
        fn = tree.body[0]
        if not isinstance(fn, (ast.FunctionDef,)):
            raise Unsupported("not a function")
        if fn.decorator_list:
            self.dropped.append(
                "decorators: " + ", ".join(ast.unparse(d) for d in fn.decorator_list)
            )
        self.fn = fn
        self.fileline = inspect.getsourcelines(obj)[1]
        return fn

    # ------------------------------------------------------------ contracts
    def parse_expr(self, s):
        return ast.parse(textwrap.dedent(s).strip(), mode="eval").body

    def _free_terms(self, st, fdef, args):
        """z3 terms of every free let/param the spec body mentions (used to
        decide whether two instances of the same spec source denote the same
        function)."""
        names = []
        for n in ast.walk(fdef):
            if isinstance(n, ast.Name) and n.id not in args and n.id not in names:
                names.append(n.id)
        terms = []
        done = set()
        work = list(names)
        while work:
            n = work.pop()
            if n in done:
                continue
            done.add(n)
            if n in self.contract.spec:
                continue
            if n in self.contract.lets:
                try:
                    lv = self.deref(st, self.eval(st, self.parse_expr(self.contract.lets[n])))
                except Unsupported:
                    lv = None
                if isinstance(lv, V):
                    terms.extend(lv.c)
                    continue
                for m in ast.walk(self.parse_expr(self.contract.lets[n])):
                    if isinstance(m, ast.Name):
                        work.append(m.id)
                continue
            v = self.bound.get(n, st.vars.get(n))
            if v is None:
                continue
            v = self.deref(st, v)
            if isinstance(v, V):
                terms.extend(v.c)
            elif isinstance(v, Obj):
                for fv in v.fields.values():
                    fv = self.deref(st, fv)
                    if isinstance(fv, V):
                        terms.extend(fv.c)
        return terms

    def setup_spec(self, st):
        """Declare spec functions; their defining axioms are closed over the
        pre-state parameters.  An instance with identical source over
        identical argument terms re-uses the existing function symbol (this is
        how a caller and a callee share a spec function)."""
        c = self.contract
        insts = self.__dict__.setdefault("spec_instances", [])
        fresh_defs = []
        for name, src in c.spec.items():
            fdef = ast.parse(textwrap.dedent(src)).body[0]
            args = [a.arg for a in fdef.args.args]
            ret = c.spec_types.get(name, Int)
            om = self.spec_mode
            self.spec_mode = True
            try:
                free = self._free_terms(st, fdef, args)
            finally:
                self.spec_mode = om
            norm = ast.dump(fdef)
            found = None
            for (n2, norm2, free2, f2) in insts:
                if n2 == name and norm2 == norm and len(free2) == len(free) and all(a.eq(b) for a, b in zip(free, free2)):
                    found = f2
                    break
            if found is not None:
                self.specfns[name] = (found, args, ret, fdef)
                continue
            sorts = [Ty.IntS] * len(args)
            f = z3.Function(f"spec!{name}!{len(insts)}", *sorts, ret.sorts()[0])
            insts.append((name, norm, free, f))
            self.specfns[name] = (f, args, ret, fdef)
            fresh_defs.append(name)
        # axioms after all are declared (mutual references allowed)
        for name in fresh_defs:
            (f, args, ret, fdef) = self.specfns[name]
            zs = [z3.Int(f"{name}!{a}") for a in args]
            body = fdef.body
            # allow docstring
            if body and isinstance(body[0], ast.Expr) and isinstance(body[0].value, ast.Constant):
                body = body[1:]
            if len(body) != 1 or not isinstance(body[0], ast.Return):
                raise Unsupported(f"spec fn {name} must be a single return expression")
            old_bound = dict(self.bound)
            for a, zc in zip(args, zs):
                self.bound[a] = V(Int, [zc])
            om = self.spec_mode
            self.spec_mode = True
            try:
                val = self.eval(st, body[0].value)
            finally:
                self.spec_mode = om
                self.bound = old_bound
            val = self.coerce(val, ret)
            ax = f(*zs) == val.term
            self.axioms.append(z3.ForAll(zs, ax, patterns=[f(*zs)]) if zs else ax)

    def eval_spec_value(self, st, src):
        """Evaluate a contract expression string to a value (ghost code)."""
        node = self.parse_expr(src)
        old_mode = self.spec_mode
        self.spec_mode = True
        try:
            return self.eval(st, node)
        finally:
            self.spec_mode = old_mode

    def eval_spec(self, st, src, extra=None):
        """Evaluate a contract expression string to a z3 Bool."""
        node = self.parse_expr(src) if isinstance(src, str) else src
        old_mode, old_bound = self.spec_mode, dict(self.bound)
        self.spec_mode = True
        if extra:
            self.bound.update(extra)
        try:
            v = self.eval(st, node)
        finally:
            self.spec_mode, self.bound = old_mode, old_bound
        return self.truth(st, v)

    # ----------------------------------------------------------- evaluation
    def coerce(self, v, t):
        if isinstance(v, Ref):
            raise Unsupported("coerce of reference")
        if isinstance(v, PyConst):
            if isinstance(v.val, float) and v.val == -float("inf") and isinstance(t, Ty.Opt):
                # extended integers: -inf is the 'none' of Opt(Int)
                return Ty.mk_opt_none(t.t)
            if isinstance(v.val, float) and v.val in (float("inf"), -float("inf")) and isinstance(t, Ty._Real):
                return self.infinity(v.val < 0)
            if isinstance(v.val, (int, float)) and not isinstance(v.val, bool) and isinstance(t, Ty._Real):
                return V(Real, [z3.RealVal(repr(v.val))])
            raise Unsupported(f"python constant {v.val!r} flowing into {t}")
        if isinstance(t, Ty._Real) and isinstance(v.t, Ty._Int):
            return V(Real, [z3.ToReal(v.term)])
        if isinstance(t, Ty.List) and isinstance(v.t, Ty.Tuple):
            # a fixed-arity tuple flowing into a slot declared as a sequence of symbolic length
            parts = [self.coerce(x, t.e) for x in Ty.split(v.t, v.c)]
            arrs = [z3.K(Ty.IntS, c) for c in (parts[0].c if parts else [z3.IntVal(0)] * len(t.e.sorts()))]
            for p_, x in enumerate(parts):
                arrs = [z3.Store(a, p_, c) for a, c in zip(arrs, x.c)]
            return V(t, [z3.IntVal(len(parts))] + arrs)
        if isinstance(t, Ty.Opt) and not isinstance(v.t, Ty.Opt):
            if isinstance(v.t, Ty._None):
                return Ty.mk_opt_none(t.t)
            return Ty.mk_opt_some(self.coerce(v, t.t))
        return v

    def narrow(self, st, v, t, node):
        if isinstance(v, PyConst):
            return self.coerce(v, t)
        return self._narrow(st, v, t, node)

    def _narrow(self, st, v, t, node):
        """Store/flow of a value into a slot of declared type t.  An Optional
        flowing into a non-optional slot generates the obligation 'is not
        None' (the slot type is the contract's claim about the code)."""
        if isinstance(v, V) and isinstance(v.t, Ty.Opt) and not isinstance(t, Ty.Opt):
            self.oblige(st, z3.Not(v.c[0]), f"value is not None at line {self.line(node)}", "safety", node)
            return self.coerce(V(v.t.t, v.c[1:]), t)
        return self.coerce(v, t)

    def truth(self, st, v):
        """z3 Bool for the Python truth value of v."""
        if isinstance(v, Ref):
            hv = st.heap[v.id]
            if isinstance(hv, V):
                return self.truth(st, hv)
            return z3.BoolVal(True)
        if isinstance(v, PyConst):
            return z3.BoolVal(bool(v.val))
        t = v.t
        if isinstance(t, Ty._Bool):
            return v.term
        if isinstance(t, Ty._Int):
            return v.term != 0
        if isinstance(t, Ty._Real):
            return v.term != 0
        if isinstance(t, Ty._None):
            return z3.BoolVal(False)
        if isinstance(t, Ty.Opt):
            return z3.And(z3.Not(v.c[0]), self.truth(st, V(t.t, v.c[1:])))
        if isinstance(t, Ty.List):
            return v.c[0] > 0
        if isinstance(t, Ty.ODict):
            return v.c[0] > 0
        if isinstance(t, Ty.Tuple):
            return z3.BoolVal(len(t.ts) > 0)
        if isinstance(t, (Ty.Map, Ty.Set)):
            # non-empty: quantifier-free (extensional) so that path pruning can use it
            return v.c[0] != z3.K(Ty.IntS, z3.BoolVal(False))
        raise Unsupported(f"truth of {t}")

    def concrete_bool(self, st, cond):
        d = st.decided(cond)
        if d is None:
            raise NeedSplit(cond)
        return d

    def num(self, v):
        if isinstance(v, PyConst) and isinstance(v.val, float) and v.val in (float("inf"), -float("inf")):
            return self.infinity(v.val < 0).term
        if isinstance(v, V) and isinstance(v.t, (Ty._Int, Ty._Real)):
            return v.term
        if isinstance(v, V) and isinstance(v.t, Ty._Bool):
            return z3.If(v.term, 1, 0)
        raise Unsupported(f"number expected, got {v}")

    def eval(self, st, node):
        m = getattr(self, "e_" + type(node).__name__, None)
        if m is None:
            raise Unsupported(f"expression {type(node).__name__}")
        return m(st, node)

    def e_Constant(self, st, node):
        v = node.value
        if v is None:
            return Ty.mk_none()
        if isinstance(v, bool):
            return Ty.mk_bool(v)
        if isinstance(v, int):
            return Ty.mk_int(v)
        if isinstance(v, float):
            if v == int(v):
                return V(Real, [z3.RealVal(int(v))])
            return V(Real, [z3.RealVal(repr(v))])
        if isinstance(v, str):
            return PyConst(v)
        if v is Ellipsis:
            return PyConst(v)
        raise Unsupported(f"constant {v!r}")

    def e_Name(self, st, node):
        n = node.id
        if n in self.bound:
            return self.bound[n]
        if n in st.vars:
            flag = st.vars.get("bound!" + n) if not self.spec_mode else None
            if flag is not None and not z3.is_true(flag.term):
                # a local first assigned inside a loop: reading it needs the assignment to have happened
                self.oblige(st, flag.term, f"local {n} is bound when read at line {self.line(node)}", "safety", node)
            return st.vars[n]
        if self.spec_mode and n in self.contract.lets:
            return self.eval(st, self.parse_expr(self.contract.lets[n]))
        if n in ("True", "False"):
            return Ty.mk_bool(n == "True")
        # module-level constant?
        if self.module is not None and hasattr(self.module, n):
            val = getattr(self.module, n)
            if isinstance(val, bool):
                return Ty.mk_bool(val)
            if isinstance(val, int):
                return Ty.mk_int(val)
            return PyConst(val)
        import builtins

        if hasattr(builtins, n):
            return PyConst(getattr(builtins, n))
        raise Unsupported(f"unbound name {n}")

    def e_Tuple(self, st, node):
        vs = []
        for e in node.elts:
            if isinstance(e, ast.Starred):
                # (*t,) with t a fixed-arity tuple
                tv = self.deref(st, self.eval(st, e.value))
                if not (isinstance(tv, V) and isinstance(tv.t, Ty.Tuple)):
                    raise Unsupported("starred element that is not a fixed-arity tuple")
                vs.extend(Ty.split(tv.t, tv.c))
            else:
                vs.append(self.unbox_value(st, self.eval(st, e)))
        return Ty.mk_tuple(vs)

    def e_Yield(self, st, node):
        """A generator is modelled by the list of the values it yields (consumed eagerly, in order):
        `yield v` appends to the hidden list that becomes the function's result."""
        ref = st.vars.get("__yields__")
        if ref is None:
            raise Unsupported("yield outside a function declared to return a list")
        lv = st.heap[ref.id]
        val = self.coerce(self.unbox_value(st, self.eval(st, node.value)), lv.t.e)
        st.heap[ref.id] = V(lv.t, [lv.c[0] + 1] + [z3.Store(a, lv.c[0], c) for a, c in zip(lv.c[1:], val.c)])
        return Ty.mk_none()

    def unbox_value(self, st, v):
        """Value semantics for nesting a container inside a tuple/list element."""
        if isinstance(v, Ref):
            hv = st.heap[v.id]
            if isinstance(hv, V):
                return hv
            raise Unsupported("object nested in a value")
        if isinstance(v, PyConst):
            raise Unsupported(f"python constant {v.val!r} inside symbolic value")
        return v

    def e_List(self, st, node):
        if node.elts:
            vs = [self.unbox_value(st, self.eval(st, e)) for e in node.elts]
            et = vs[0].t
            ln = len(vs)
            arrs = []
            for j, s in enumerate(et.sorts()):
                a = z3.K(Ty.IntS, vs[0].c[j])
                for p, v in enumerate(vs):
                    a = z3.Store(a, p, v.c[j])
                arrs.append(a)
            return self.alloc(st, V(Ty.List(et), [z3.IntVal(ln)] + arrs))
        et = self.hint_type(node, Ty.List(Int)).e
        lt = Ty.List(et)
        v = self.havoc_t(st, lt, "emptylist", node)
        return self.alloc(st, V(lt, [z3.IntVal(0)] + v.c[1:]))

    def hint_type(self, node, default):
        h = self.contract.hints.get(getattr(node, "_target_name", None))
        return h if h is not None else default

    def e_Dict(self, st, node):
        if node.keys:
            # {"name": value, ...} with constant string keys: an immutable record
            if all(isinstance(k, ast.Constant) and isinstance(k.value, str) for k in node.keys):
                names = [k.value for k in node.keys]
                hint = self.contract.hints.get(getattr(node, "_target_name", None))
                if isinstance(hint, Ty.SDict):
                    cur = Ty.sdict_empty(hint)
                    for nm, vnode in zip(names, node.values):
                        cur = self.functional_store(st, cur, PyConst(nm), self.eval(st, vnode), node)
                    return self.alloc(st, cur)
                vals = [self.unbox_value(st, self.eval(st, v)) for v in node.values]
                t = Ty.Rec("dict", dict(zip(names, [v.t for v in vals])), mutable=False)
                return V(t, [c for v in vals for c in v.c])
            raise Unsupported("non-empty dict literal")
        t = self.hint_type(node, Ty.Map(Key, Int))
        if isinstance(t, Ty.ODict):
            v = self.havoc_t(st, t, "emptyodict", node)
            n = len(t.keys_t.sorts())
            comps = [z3.IntVal(0)] + v.c[1:n] + [z3.K(Ty.IntS, z3.BoolVal(False))] + v.c[n + 1 :]
            return self.alloc(st, V(t, comps))
        v = self.havoc_t(st, t, "emptydict", node)
        return self.alloc(st, V(t, [z3.K(Ty.IntS, z3.BoolVal(False))] + v.c[1:]))

    def e_Set(self, st, node):
        raise Unsupported("set literal")

    def e_UnaryOp(self, st, node):
        v = self.eval(st, node.operand)
        if isinstance(node.op, ast.Not):
            return Ty.mk_bool(z3.Not(self.truth(st, v)))
        if isinstance(node.op, ast.USub):
            if isinstance(v, PyConst) and isinstance(v.val, float):
                return PyConst(-v.val)
            if isinstance(v.t, Ty._Real):
                return V(Real, [-v.term])
            return V(Int, [-self.num(v)])
        raise Unsupported("unary op")

    def arith(self, st, op, a, b, node):
        def _isinf(x):
            return isinstance(x, PyConst) and isinstance(x.val, float)

        if (isinstance(a, (Ref, PyConst)) and not _isinf(a)) or (isinstance(b, (Ref, PyConst)) and not _isinf(b)):
            return self.container_binop(st, op, a, b, node)
        if _isinf(a):
            a = self.infinity(a.val < 0)
        if _isinf(b):
            b = self.infinity(b.val < 0)
        if not isinstance(a.t, (Ty._Int, Ty._Real, Ty._Bool)) or not isinstance(b.t, (Ty._Int, Ty._Real, Ty._Bool)):
            return self.container_binop(st, op, a, b, node)
        real = isinstance(a.t, Ty._Real) or isinstance(b.t, Ty._Real)
        x, y = self.num(a), self.num(b)
        if real:
            x = z3.ToReal(x) if x.sort() == Ty.IntS else x
            y = z3.ToReal(y) if y.sort() == Ty.IntS else y
        mk = (lambda t: V(Real, [t])) if real else (lambda t: V(Int, [t]))
        if isinstance(op, ast.Add):
            return mk(x + y)
        if isinstance(op, ast.Sub):
            return mk(x - y)
        if isinstance(op, ast.Mult):
            return mk(x * y)
        if isinstance(op, ast.FloorDiv):
            if real:
                raise Unsupported("real floor division")
            if not self.spec_mode:
                self.oblige(st, y > 0, f"divisor positive at line {self.line(node)}", "safety", node)
            return mk(x / y)  # z3 Int division is floor for positive divisors
        if isinstance(op, ast.Mod):
            if real:
                raise Unsupported("real modulo")
            if not self.spec_mode:
                self.oblige(st, y > 0, f"modulus positive at line {self.line(node)}", "safety", node)
            return mk(x % y)
        if isinstance(op, ast.Div):
            xr = z3.ToReal(x) if x.sort() == Ty.IntS else x
            yr = z3.ToReal(y) if y.sort() == Ty.IntS else y
            if not self.spec_mode:
                self.oblige(st, yr != 0, f"divisor non-zero at line {self.line(node)}", "safety", node)
            return V(Real, [xr / yr])
        if isinstance(op, ast.Pow):
            return self.power(st, a, b, x, y, real, node)
        if isinstance(op, (ast.BitAnd, ast.BitOr, ast.LShift)) and not real:
            # bit operations on integers (bit masks): uninterpreted binary functions - nothing about bits is assumed
            nm = {"BitAnd": "bitand", "BitOr": "bitor", "LShift": "shl"}[type(op).__name__]
            if nm not in self.specfns:
                self.specfns[nm] = (z3.Function(nm, Ty.IntS, Ty.IntS, Ty.IntS), [], Int, None)
            return mk(self.specfns[nm][0](x, y))
        raise Unsupported(f"binary op {type(op).__name__}")

    def power(self, st, a, b, x, y, real, node):
        # only 10 ** e (uninterpreted over reals, with exponent laws) and x ** small const
        if z3.is_int_value(y) and 0 <= y.as_long() <= 4 and not real:
            r = z3.IntVal(1)
            for _ in range(y.as_long()):
                r = r * x
            return V(Int, [r])
        xs = z3.simplify(x)
        if (z3.is_int_value(xs) and xs.as_long() == 10) or (z3.is_rational_value(xs) and xs.as_fraction() == 10):
            f = self.pow10()
            yr = z3.ToReal(y) if y.sort() == Ty.IntS else y
            return V(Real, [f(yr)])
        # general power: uninterpreted (only equalities between identical terms follow)
        if "upow" not in self.specfns:
            self.specfns["upow"] = (z3.Function("upow", Ty.RealS, Ty.RealS, Ty.RealS), [], Real, None)
        xr = z3.ToReal(x) if x.sort() == Ty.IntS else x
        yr = z3.ToReal(y) if y.sort() == Ty.IntS else y
        return V(Real, [self.specfns["upow"][0](xr, yr)])

    def pow10(self):
        if "pow10" not in self.specfns:
            f = z3.Function("pow10", Ty.RealS, Ty.RealS)
            a, b = z3.Reals("p10a p10b")
            self.axioms.append(z3.ForAll([a, b], f(a + b) == f(a) * f(b), patterns=[z3.MultiPattern(f(a), f(b))]))
            self.axioms.append(f(z3.RealVal(0)) == 1)
            self.axioms.append(z3.ForAll([a], f(a) > 0, patterns=[f(a)]))
            self.specfns["pow10"] = (f, ["a"], Real, None)
        return self.specfns["pow10"][0]

    def line(self, node):
        return getattr(node, "lineno", 0) + getattr(self, "fileline", 1) - 1

    def e_BinOp(self, st, node):
        a = self.eval(st, node.left)
        b = self.eval(st, node.right)
        hook = "binop:" + type(node.op).__name__
        if hook in self.contract.externals and any(isinstance(x, V) and type(x.t) is type(Key) for x in (a, b)):
            # an operator applied to an opaque value (an array): the contract names what it means
            return self.external(st, hook, [a, b], node, {})
        return self.arith(st, node.op, a, b, node)

    def container_binop(self, st, op, a, b, node):
        av, bv = self.deref(st, a), self.deref(st, b)
        if isinstance(op, ast.Mult) and isinstance(av, V) and isinstance(av.t, Ty.List) and isinstance(bv, V) and isinstance(bv.t, Ty._Int):
            # [c] * n  with a single constant element
            ln = z3.simplify(av.c[0])
            if z3.is_int_value(ln) and ln.as_long() == 1:
                arrs = [z3.K(Ty.IntS, z3.Select(arr, 0)) for arr in av.c[1:]]
                n = bv.term
                return self.alloc(st, V(av.t, [z3.If(n > 0, n, 0)] + arrs))
        if isinstance(op, ast.Add) and isinstance(av, V) and isinstance(bv, V) and isinstance(av.t, Ty.Tuple) and isinstance(bv.t, Ty.Tuple):
            return Ty.mk_tuple(Ty.split(av.t, av.c) + Ty.split(bv.t, bv.c))
        if isinstance(op, ast.Add) and isinstance(av, V) and isinstance(bv, V) and isinstance(av.t, Ty.List) and isinstance(bv.t, Ty.Tuple):
            # sequence + (x, y): the elements appended (a tuple of symbolic length is modelled as a list)
            comps = list(av.c)
            for part in Ty.split(bv.t, bv.c):
                pv = self.coerce(part, av.t.e)
                comps = [comps[0] + 1] + [z3.Store(a, comps[0], c) for a, c in zip(comps[1:], pv.c)]
            return self.alloc(st, V(av.t, comps))
        if isinstance(op, ast.Add) and isinstance(av, V) and isinstance(bv, V) and isinstance(av.t, Ty.List) and isinstance(bv.t, Ty.List) and len(av.c) == len(bv.c):
            # list (or string) concatenation: a new list
            if len(av.c) == 2 and isinstance(av.t.e, type(Key)):
                return self.concat_lists(st, [av, bv])
            q = z3.Int("cat!q")
            arrs = [z3.Lambda([q], z3.If(q < av.c[0], x[q], y[q - av.c[0]])) for x, y in zip(av.c[1:], bv.c[1:])]
            return self.alloc(st, V(av.t, [av.c[0] + bv.c[0]] + arrs))
        if isinstance(av, V) and isinstance(bv, V) and isinstance(av.t, Ty.Set) and isinstance(bv.t, Ty.Set):
            A, B = av.c[0], bv.c[0]
            if isinstance(op, ast.BitOr):
                return self.alloc(st, V(av.t, [z3.SetUnion(A, B)]))
            if isinstance(op, ast.BitAnd):
                return self.alloc(st, V(av.t, [z3.SetIntersect(A, B)]))
            if isinstance(op, ast.Sub):
                return self.alloc(st, V(av.t, [z3.SetDifference(A, B)]))
        raise Unsupported(f"binary op on {av} and {bv}")

    def narrow_names(self, st, test, truth=True):
        """Type narrowing: on a path where `x is not None` holds (a conjunct of the test when it is
        true; `x is None` / a disjunct when the test is false) an Optional local x is its value.
        Returns {name: previous binding} for the names it rebinds (the condition itself is already
        on the path condition, so this only changes the static type)."""
        saved = {}

        def conj(t, want):
            if isinstance(t, ast.BoolOp) and ((isinstance(t.op, ast.And) and want) or (isinstance(t.op, ast.Or) and not want)):
                for x in t.values:
                    conj(x, want)
            elif isinstance(t, ast.UnaryOp) and isinstance(t.op, ast.Not):
                conj(t.operand, not want)
            elif (isinstance(t, ast.Compare) and len(t.ops) == 1 and isinstance(t.left, ast.Name) and isinstance(t.comparators[0], ast.Constant)
                  and t.comparators[0].value is None and isinstance(t.ops[0], ast.IsNot if want else ast.Is)):
                n = t.left.id
                cur = st.vars.get(n)
                if n not in self.bound and isinstance(cur, V) and isinstance(cur.t, Ty.Opt) and n not in saved:
                    saved[n] = cur
                    inner = V(cur.t.t, cur.c[1:])
                    st.vars[n] = self.box(st, inner)

        conj(test, truth)
        return saved

    def e_BoolOp(self, st, node):
        # short-circuit: operand k is evaluated under the guard that the
        # previous operands did not decide the result (so safety obligations
        # inside it are conditional, as in Python)
        ts = []
        npc = len(st.pc)
        saved = {}
        try:
            for vnode in node.values:
                v = self.eval(st, vnode)
                t = self.truth(st, v)
                ts.append(t)
                st.pc.append(t if isinstance(node.op, ast.And) else z3.Not(t))
                # later operands see `x is not None` (and) / not `x is None` (or) of the earlier ones
                for n_, old_ in self.narrow_names(st, vnode, isinstance(node.op, ast.And)).items():
                    saved.setdefault(n_, old_)
        finally:
            del st.pc[npc:]
            for n_, old_ in saved.items():
                st.vars[n_] = old_
        # NB: operands are evaluated eagerly; fine for the pure, total
        # expressions of the subset (safety obligations inside an operand are
        # guarded below by evaluating them under the short-circuit condition)
        if isinstance(node.op, ast.And):
            return Ty.mk_bool(z3.And(*ts))
        return Ty.mk_bool(z3.Or(*ts))

    def e_IfExp(self, st, node):
        c = self.truth(st, self.eval(st, node.test))
        d = st.decided(c)
        if d is True:
            return self.eval(st, node.body)
        if d is False:
            return self.eval(st, node.orelse)
        if self.spec_mode or self.bound:
            a = self.eval(st, node.body)
            b = self.eval(st, node.orelse)
            if isinstance(a, V) and isinstance(b, V):
                if isinstance(a.t, Ty._Real) or isinstance(b.t, Ty._Real):
                    a, b = self.coerce(a, Real), self.coerce(b, Real)
                if isinstance(a.t, Ty.Opt) or isinstance(b.t, Ty.Opt):
                    tt = a.t if isinstance(a.t, Ty.Opt) else b.t
                    a, b = self.coerce(a, tt), self.coerce(b, tt)
                if isinstance(a.t, Ty.Tuple) and isinstance(b.t, Ty.Tuple) and len(a.t.ts) == len(b.t.ts) and a.t.ts and repr(a.t) != repr(b.t):
                    # tuples of the same arity whose components differ only by None / Optional: unify per component
                    pa, pb = Ty.split(a.t, a.c), Ty.split(b.t, b.c)
                    ua, ub = [], []
                    for x, y in zip(pa, pb):
                        if isinstance(x.t, Ty._None) and not isinstance(y.t, Ty._None):
                            tt = y.t if isinstance(y.t, Ty.Opt) else Ty.Opt(y.t)
                        elif isinstance(y.t, Ty._None) and not isinstance(x.t, Ty._None):
                            tt = x.t if isinstance(x.t, Ty.Opt) else Ty.Opt(x.t)
                        elif isinstance(x.t, Ty.Opt) or isinstance(y.t, Ty.Opt):
                            tt = x.t if isinstance(x.t, Ty.Opt) else y.t
                        else:
                            tt = x.t
                        ua.append(self.coerce(x, tt))
                        ub.append(self.coerce(y, tt))
                    a, b = Ty.mk_tuple(ua), Ty.mk_tuple(ub)
                if len(a.c) != len(b.c):
                    raise Unsupported(f"conditional between values of different shape ({a.t} / {b.t})")
                return Ty.ite(c, a, b)
            raise Unsupported("conditional on containers in spec")
        raise NeedSplit(c)

    def cmp(self, st, op, a, b, node):
        if isinstance(op, (ast.Is, ast.IsNot)):
            r = self.is_(st, a, b)
            return z3.Not(r) if isinstance(op, ast.IsNot) else r
        if isinstance(op, (ast.In, ast.NotIn)):
            r = self.contains(st, b, a, node)
            return z3.Not(r) if isinstance(op, ast.NotIn) else r
        if isinstance(op, (ast.Eq, ast.NotEq)):
            r = self.equal(st, a, b)
            return z3.Not(r) if isinstance(op, ast.NotEq) else r
        if isinstance(a, V) and isinstance(b, V) and isinstance(a.t, Ty.Tuple) and isinstance(b.t, Ty.Tuple):
            return self.lex(op, Ty.split(a.t, a.c), Ty.split(b.t, b.c))
        if isinstance(a, V) and isinstance(a.t, Ty.Opt):
            a = self.narrow(st, a, a.t.t, node)
        if isinstance(b, V) and isinstance(b.t, Ty.Opt):
            b = self.narrow(st, b, b.t.t, node)
        x, y = self.num(a), self.num(b)
        if x.sort() != y.sort():
            x = z3.ToReal(x) if x.sort() == Ty.IntS else x
            y = z3.ToReal(y) if y.sort() == Ty.IntS else y
        if isinstance(op, ast.Lt):
            return x < y
        if isinstance(op, ast.LtE):
            return x <= y
        if isinstance(op, ast.Gt):
            return x > y
        if isinstance(op, ast.GtE):
            return x >= y
        raise Unsupported("comparison")

    def lex(self, op, xs, ys):
        strict = isinstance(op, (ast.Lt, ast.Gt))
        less = isinstance(op, (ast.Lt, ast.LtE))
        res = z3.BoolVal(not strict) if len(xs) == len(ys) else z3.BoolVal(len(xs) < len(ys) if less else len(xs) > len(ys))
        for x, y in reversed(list(zip(xs, ys))):
            a, b = self.num(x), self.num(y)
            lt = a < b if less else a > b
            res = z3.Or(lt, z3.And(a == b, res))
        return res

    def is_(self, st, a, b):
        if isinstance(a, Ref) and isinstance(b, Ref):
            return z3.BoolVal(a.id == b.id)
        for x, y in ((a, b), (b, a)):
            if isinstance(y, V) and isinstance(y.t, Ty._None):
                if isinstance(x, V) and isinstance(x.t, Ty.Opt):
                    return x.c[0]
                if isinstance(x, V) and isinstance(x.t, Ty._None):
                    return z3.BoolVal(True)
                return z3.BoolVal(False)
        if isinstance(a, PyConst) and isinstance(b, PyConst):
            return z3.BoolVal(a.val is b.val)
        if isinstance(a, V) and isinstance(b, V) and isinstance(a.t, Ty._Bool) and isinstance(b.t, Ty._Bool):
            # True and False are singletons: for values whose declared type is bool, identity is equality
            return a.term == b.term
        if isinstance(a, PyConst) != isinstance(b, PyConst):
            # a symbolic value / heap object is never a module-level python object
            return z3.BoolVal(False)
        raise Unsupported("identity comparison")

    def equal(self, st, a, b):
        av, bv = self.deref(st, a), self.deref(st, b)
        if isinstance(av, PyConst) and isinstance(bv, PyConst):
            return z3.BoolVal(av.val == bv.val)
        if isinstance(av, PyConst) or isinstance(bv, PyConst):
            pc, other = (av, bv) if isinstance(av, PyConst) else (bv, av)
            if isinstance(other, V) and isinstance(other.t, Ty._Key) and isinstance(pc.val, str):
                return other.term == self.strkey(pc.val)
            raise Unsupported(f"equality with python constant {pc.val!r}")
        if not isinstance(av, V) or not isinstance(bv, V):
            raise Unsupported("object equality")
        ta, tb = av.t, bv.t
        if isinstance(ta, Ty._None) or isinstance(tb, Ty._None):
            return self.is_(st, av, bv)
        if isinstance(ta, Ty.Opt) or isinstance(tb, Ty.Opt):
            tt = ta if isinstance(ta, Ty.Opt) else tb
            x, y = self.coerce(av, tt), self.coerce(bv, tt)
            inner = self.equal(st, V(tt.t, x.c[1:]), V(tt.t, y.c[1:]))
            return z3.Or(z3.And(x.c[0], y.c[0]), z3.And(z3.Not(x.c[0]), z3.Not(y.c[0]), inner))
        if isinstance(ta, (Ty._Int, Ty._Real, Ty._Bool)) and isinstance(tb, (Ty._Int, Ty._Real, Ty._Bool)):
            if isinstance(ta, Ty._Bool) and isinstance(tb, Ty._Bool):
                return av.term == bv.term
            x, y = self.num(av), self.num(bv)
            if x.sort() != y.sort():
                x = z3.ToReal(x) if x.sort() == Ty.IntS else x
                y = z3.ToReal(y) if y.sort() == Ty.IntS else y
            return x == y
        if isinstance(ta, (Ty.Tuple, Ty.Rec)) and isinstance(tb, (Ty.Tuple, Ty.Rec)):
            xs, ys = Ty.split(ta, av.c), Ty.split(tb, bv.c)
            if len(xs) != len(ys):
                return z3.BoolVal(False)
            return z3.And(*[self.equal(st, x, y) for x, y in zip(xs, ys)]) if xs else z3.BoolVal(True)
        if isinstance(ta, Ty.List) and isinstance(tb, Ty.List):
            p = z3.Int("eq!p")
            same = [x[p] == y[p] for x, y in zip(av.c[1:], bv.c[1:])]
            return z3.And(av.c[0] == bv.c[0], z3.ForAll([p], z3.Implies(z3.And(0 <= p, p < av.c[0]), z3.And(*same))))
        if isinstance(ta, Ty.Set) and isinstance(tb, Ty.Set):
            return av.c[0] == bv.c[0]
        if isinstance(ta, Ty.SDict) and isinstance(tb, Ty.SDict):
            offa, offb = ta.offsets(), tb.offsets()
            if list(offa) != list(offb):
                return z3.BoolVal(False)
            parts = []
            for n_, (a, b, c, ft) in offa.items():
                pa, pb = av.c[a], bv.c[a]
                parts.append(pa == pb)
                parts.append(z3.Implies(pa, self.equal(st, V(ft, av.c[b:c]), V(ft, bv.c[b:c]))))
            return z3.And(*parts)
        if isinstance(ta, Ty.Map) and isinstance(tb, Ty.Map):
            k = z3.Int("eq!k")
            same = [x[k] == y[k] for x, y in zip(av.c[1:], bv.c[1:])]
            return z3.And(av.c[0] == bv.c[0], z3.ForAll([k], z3.Implies(av.c[0][k], z3.And(*same))))
        if isinstance(ta, Ty.ODict) and isinstance(tb, Ty.ODict):
            # python dict equality ignores order
            n = len(ta.keys_t.sorts())
            return self.equal(st, V(ta.map_t, av.c[n:]), V(tb.map_t, bv.c[n:]))
        raise Unsupported(f"equality of {ta} and {tb}")

    _strkeys = {}

    def strkey(self, s):
        """String constants used as keys get distinct negative ids."""
        if s not in Engine._strkeys:
            Engine._strkeys[s] = -(len(Engine._strkeys) + 1000)
        return z3.IntVal(Engine._strkeys[s])

    def contains(self, st, cont, item, node):
        cv = self.deref(st, cont)
        iv = self.deref(st, item)
        if isinstance(cv, PyConst):
            if isinstance(cv.val, (tuple, list, set, frozenset)) and all(isinstance(x, int) for x in cv.val):
                return z3.Or(*[self.num(iv) == x for x in cv.val]) if cv.val else z3.BoolVal(False)
            raise Unsupported("containment in python constant")
        t = cv.t
        if isinstance(t, Ty.SDict):
            if isinstance(iv, PyConst) and isinstance(iv.val, str):
                off = t.offsets()
                if iv.val in off:
                    return cv.c[off[iv.val][0]]
                return z3.BoolVal(False)
            raise Unsupported("containment of a computed key in a string-keyed dict")
        k = self.keyterm(iv)
        if isinstance(t, (Ty.Map, Ty.Set)):
            return cv.c[0][k]
        if isinstance(t, Ty.ODict):
            n = len(t.keys_t.sorts())
            return cv.c[n][k]
        if isinstance(t, Ty.Tuple):
            parts = Ty.split(t, cv.c)
            return z3.Or(*[self.equal(st, p, iv) for p in parts]) if parts else z3.BoolVal(False)
        if isinstance(t, Ty.List) and len(t.e.sorts()) == 1:
            p = z3.Int("in!p")
            return z3.Exists([p], z3.And(0 <= p, p < cv.c[0], cv.c[1][p] == k))
        raise Unsupported(f"containment in {t}")

    def entailed(self, st, fact):
        """The quantifier-free part of the path condition entails `fact` (cheap solver query; only `unsat` counts)."""
        sol = z3.Solver()
        sol.set("rlimit", 600000)
        sol.set("timeout", 2000)
        for a in st.pc:
            if self._qf(a):
                sol.add(a)
        sol.add(z3.Not(fact))
        return sol.check() == z3.unsat

    def key_not_none(self, st, v, node):
        """An Optional scalar used as a dict key in the code: obligation 'is not None', then its value."""
        if isinstance(v, V) and isinstance(v.t, Ty.Opt) and isinstance(v.t.t, Ty._Int) and not self.spec_mode:
            self.oblige(st, z3.Not(v.c[0]), f"key is not None at line {self.line(node)}", "safety", node)
            return V(v.t.t, v.c[1:])
        return v

    def keyterm(self, v):
        if isinstance(v, PyConst) and isinstance(v.val, str):
            return self.strkey(v.val)
        if isinstance(v, V) and isinstance(v.t, (Ty._Int,)):
            return v.term
        if isinstance(v, V) and isinstance(v.t, Ty.Tuple) and all(isinstance(x, Ty._Int) for x in v.t.ts) and v.t.ts:
            # tuples of keys used as a dict key: an injective pairing function
            n = len(v.t.ts)
            name = f"tupkey{n}"
            if name not in self.specfns:
                f = z3.Function(name, *([Ty.IntS] * n), Ty.IntS)
                self.specfns[name] = (f, [], Int, None)
                xs = [z3.Int(f"tk!x{i}") for i in range(n)]
                ys = [z3.Int(f"tk!y{i}") for i in range(n)]
                self.axioms.append(z3.ForAll(xs + ys, z3.Implies(f(*xs) == f(*ys), z3.And(*[a == b for a, b in zip(xs, ys)])),
                                             patterns=[z3.MultiPattern(f(*xs), f(*ys))]))
            return self.specfns[name][0](*v.c)
        if isinstance(v, V) and isinstance(v.t, Ty.Set):
            # frozensets used as dict keys (tree nodes): injective id
            if "setkey" not in self.specfns:
                SetS = z3.ArraySort(Ty.IntS, Ty.BoolS)
                f = z3.Function("setkey", SetS, Ty.IntS)
                self.specfns["setkey"] = (f, [], Int, None)
                A, B = z3.Const("sk!A", SetS), z3.Const("sk!B", SetS)
                self.axioms.append(z3.ForAll([A, B], z3.Implies(f(A) == f(B), A == B), patterns=[z3.MultiPattern(f(A), f(B))]))
            return self.specfns["setkey"][0](v.c[0])
        raise Unsupported(f"key expected, got {v}")

    def e_Compare(self, st, node):
        left = self.eval(st, node.left)
        res = []
        for op, rn in zip(node.ops, node.comparators):
            right = self.eval(st, rn)
            res.append(self.cmp(st, op, left, right, node))
            left = right
        return Ty.mk_bool(z3.And(*res) if len(res) > 1 else res[0])

    # ---- attribute / subscript ------------------------------------------
    def e_Attribute(self, st, node):
        base = self.eval(st, node.value)
        return self.getattr_(st, base, node.attr, node)

    def getattr_(self, st, base, attr, node):
        bv = self.deref(st, base)
        if isinstance(bv, Obj):
            if attr in bv.fields:
                return bv.fields[attr]
            # property / alias given by the contract
            props = self.contract.properties.get(bv.cls, {})
            if attr in props:
                old = dict(self.bound)
                self.bound["self"] = base
                try:
                    return self.eval(st, self.parse_expr(props[attr]))
                finally:
                    self.bound = old
            raise Unsupported(f"unknown field {bv.cls}.{attr}")
        if isinstance(bv, V) and isinstance(bv.t, Ty.Rec):
            names = list(bv.t.fields)
            if attr in names:
                return Ty.split(bv.t, bv.c)[names.index(attr)]
            props = self.contract.properties.get(bv.t.name, {})
            if attr in props:
                old = dict(self.bound)
                self.bound["self"] = bv
                try:
                    return self.eval(st, self.parse_expr(props[attr]))
                finally:
                    self.bound = old
        if f"*.attr:{attr}" in self.contract.externals:
            r = self.external(st, f"*.attr:{attr}", [base], node)
            if r is not None:
                return r
        if isinstance(bv, PyConst):
            try:
                val = getattr(bv.val, attr)
            except AttributeError:
                raise Unsupported(f"attribute {attr} of constant")
            if isinstance(val, bool):
                return Ty.mk_bool(val)
            if isinstance(val, int):
                return Ty.mk_int(val)
            return PyConst(val)
        raise Unsupported(f"attribute {attr} of {bv}")

    def elem(self, lst, p):
        """Element p of a List value."""
        return V(lst.t.e, [a[p] for a in lst.c[1:]])

    def mapval(self, mp, k):
        return V(mp.t.v, [a[k] for a in mp.c[1:]])

    def e_Subscript(self, st, node):
        base = self.eval(st, node.value)
        bv = self.deref(st, base)
        if isinstance(node.slice, ast.Slice):
            return self.slice_(st, bv, node.slice, node)
        idx = self.eval(st, node.slice)
        return self.index(st, bv, idx, node)

    def index(self, st, bv, idx, node):
        if isinstance(bv, V) and type(bv.t) is type(Key) and "getitem" in self.contract.externals:
            # subscript of an opaque value (an array): the contract names what it means
            return self.external(st, "getitem", [bv, idx], node, {})
        if isinstance(bv, PyConst):
            if isinstance(idx, V) and z3.is_int_value(z3.simplify(idx.term)):
                val = bv.val[z3.simplify(idx.term).as_long()]
                if isinstance(val, int):
                    return Ty.mk_int(val)
                return PyConst(val)
            if isinstance(bv.val, str) and isinstance(idx, V) and isinstance(idx.t, Ty._Int) and len(bv.val) <= 256:
                # constant string indexed by a symbolic position: a character is
                # modelled by its code point
                i = idx.term
                if not self.spec_mode:
                    self.oblige(st, z3.And(0 <= i, i < len(bv.val)), f"string index in range at line {self.line(node)}", "safety", node)
                arr = z3.K(Ty.IntS, z3.IntVal(-1))
                for p, ch in enumerate(bv.val):
                    arr = z3.Store(arr, p, ord(ch))
                return V(Key, [z3.Select(arr, i)])
            raise Unsupported("symbolic index into python constant")
        t = bv.t
        if isinstance(t, Ty.SDict):
            if not (isinstance(idx, PyConst) and isinstance(idx.val, str)):
                raise Unsupported("string-keyed dict indexed by a computed key")
            off = t.offsets()
            if idx.val not in off:
                raise Unsupported(f"key {idx.val!r} outside the declared fields of {t}")
            a, b, c, ft = off[idx.val]
            present = bv.c[a]
            if not self.spec_mode:
                if "KeyError" in getattr(st, "catch", ()):
                    d = st.decided(present)
                    if d is None:
                        raise NeedSplit(present)
                    if d is False:
                        raise RaiseSignal("KeyError")
                else:
                    self.oblige(st, present, f"key {idx.val!r} present at line {self.line(node)}", "safety", node)
            return V(ft, bv.c[b:c])
        if isinstance(t, Ty.Rec) and isinstance(idx, PyConst) and isinstance(idx.val, str):
            names = list(t.fields)
            if idx.val not in names:
                raise RaiseSignal("KeyError")
            return Ty.split(t, bv.c)[names.index(idx.val)]
        if isinstance(t, Ty.List):
            i = self.num(self.deref(st, idx))
            ln = bv.c[0]
            si = z3.simplify(i)
            if z3.is_int_value(si) and si.as_long() < 0:
                i = ln + i
            if not self.spec_mode:
                self.oblige(st, z3.And(0 <= i, i < ln), f"list index in range at line {self.line(node)}", "safety", node)
            return self.elem(bv, i)
        if isinstance(t, Ty.Tuple):
            i = z3.simplify(self.num(idx))
            if not z3.is_int_value(i):
                raise Unsupported("symbolic tuple index")
            parts = Ty.split(t, bv.c)
            return parts[i.as_long()]
        if isinstance(t, (Ty.Map, Ty.ODict)):
            k = self.keyterm(self.key_not_none(st, self.deref(st, idx), node))
            mp = bv if isinstance(t, Ty.Map) else V(t.map_t, bv.c[len(t.keys_t.sorts()) :])
            if not self.spec_mode:
                inn = mp.c[0][k]
                if "KeyError" in getattr(st, "catch", ()):  # inside try/except KeyError
                    if st.decided(inn) is None:
                        raise NeedSplit(inn)
                    if st.decided(inn) is False:
                        raise RaiseSignal("KeyError")
                elif getattr(mp.t, "default", None) is None:
                    self.oblige(st, inn, f"key present at line {self.line(node)}", "safety", node)
            dflt = getattr(mp.t, "default", None)
            val = self.mapval(mp, k)
            if dflt is not None:
                return Ty.ite(mp.c[0][k], val, dflt)
            return val
        raise Unsupported(f"subscript of {t}")

    def slice_(self, st, bv, sl, node):
        if not isinstance(bv, V) or not isinstance(bv.t, Ty.List):
            if isinstance(bv, V) and isinstance(bv.t, Ty.Tuple) and sl.step is None:
                lo = z3.simplify(self.num(self.eval(st, sl.lower))).as_long() if sl.lower else 0
                parts = Ty.split(bv.t, bv.c)
                hi = z3.simplify(self.num(self.eval(st, sl.upper))).as_long() if sl.upper else len(parts)
                return Ty.mk_tuple(parts[lo:hi])
            raise Unsupported("slice of non-list")
        if sl.step is not None:
            raise Unsupported("slice step")
        ln = bv.c[0]
        lo = self.num(self.eval(st, sl.lower)) if sl.lower else z3.IntVal(0)
        hi = self.num(self.eval(st, sl.upper)) if sl.upper else ln
        # clamp like python (non-negative bounds only)
        if not self.spec_mode:
            self.oblige(st, z3.And(lo >= 0, hi >= 0), f"slice bounds non-negative at line {self.line(node)}", "safety", node)
        lo2 = z3.If(lo > ln, ln, lo)
        hi2 = z3.If(hi > ln, ln, hi)
        newlen = z3.If(hi2 > lo2, hi2 - lo2, 0)
        p = z3.Int("sl!p")
        arrs = [z3.Lambda([p], a[p + lo2]) for a in bv.c[1:]]
        return self.alloc(st, V(bv.t, [newlen] + arrs))

    # ---- calls ------------------------------------------------------------
    def e_Lambda(self, st, node):
        return PyConst(("lambda", node))

    def e_Call(self, st, node):
        from . import calls

        return calls.eval_call(self, st, node)

    def e_ListComp(self, st, node):
        from . import calls

        return calls.comprehension(self, st, node, "list")

    def e_GeneratorExp(self, st, node):
        from . import calls

        return calls.comprehension(self, st, node, "gen")

    def e_DictComp(self, st, node):
        from . import calls

        return calls.comprehension(self, st, node, "dict")

    def e_SetComp(self, st, node):
        from . import calls

        return calls.comprehension(self, st, node, "set")

    def e_JoinedStr(self, st, node):
        """f"{a},{b}" where the interpolated values are strings modelled as
        lists of code points: the concatenation, again a list of code points.
        Any other f-string is an opaque constant (messages)."""
        parts = []
        for v in node.values:
            if isinstance(v, ast.Constant) and isinstance(v.value, str):
                parts.append([z3.IntVal(ord(ch)) for ch in v.value])
            elif isinstance(v, ast.FormattedValue) and v.format_spec is None and v.conversion == -1:
                try:
                    x = self.deref(st, self.eval(st, v.value))
                except Unsupported:
                    return PyConst("<fstring>")
                if not (isinstance(x, V) and isinstance(x.t, Ty.List) and isinstance(x.t.e, (type(Key), type(Int))) and len(x.c) == 2):
                    return PyConst("<fstring>")
                parts.append(x)
            else:
                return PyConst("<fstring>")
        if not any(isinstance(p, V) for p in parts):
            return PyConst("<fstring>")
        return self.concat_lists(st, parts)

    def concat_lists(self, st, parts):
        """Concatenation of single-component lists (V) and literal runs (python
        lists of z3 ints).  The term built depends only on the pieces, so the
        same concatenation written as an f-string or with `+` is the same term."""
        q = z3.Int("cat!q")
        total = z3.IntVal(0)
        body = z3.IntVal(0)
        pieces = []
        for p in parts:
            if isinstance(p, V):
                pieces.append((total, p.c[0], (lambda arr, off: (lambda qq: arr[qq - off]))(p.c[1], total)))
                total = total + p.c[0]
            else:
                for ch in p:
                    pieces.append((total, z3.IntVal(1), (lambda c: (lambda qq: c))(ch)))
                    total = total + 1
        for off, ln, f in reversed(pieces):
            body = z3.If(z3.And(off <= q, q < off + ln), f(q), body)
        chain = [p for p in parts if isinstance(p, V)] if all(isinstance(p, V) for p in parts) else None
        return self.alloc(st, V(Ty.List(Key), [z3.simplify(total), z3.Lambda([q], body)], py=("chain", chain) if chain else None))

    # ------------------------------------------------------------ statements
    def exec_block(self, st, stmts):
        """Execute statements on one state; returns list of (state, outcome)."""
        work = [(st, 0)]
        out = []
        while work:
            s, i = work.pop()
            if i >= len(stmts):
                out.append((s, "normal"))
                continue
            for s2, oc in self.exec_stmt(s, stmts[i]):
                if oc == "normal":
                    work.append((s2, i + 1))
                else:
                    out.append((s2, oc))
        return out

    def _qf(self, e):
        cache = self.__dict__.setdefault("_qf_cache", {})
        i = e.get_id()
        if i not in cache:
            seen, stack, q = set(), [e], False
            while stack and not q:
                x = stack.pop()
                if x.get_id() in seen:
                    continue
                seen.add(x.get_id())
                if z3.is_quantifier(x):
                    q = True
                else:
                    stack.extend(x.children())
            cache[i] = not q
        return cache[i]

    def feasible(self, st):
        """Prune a path only when the QUANTIFIER-FREE part of its path
        condition is unsatisfiable (cheap and sound for pruning)."""
        if not self.feas:
            return True
        sol = z3.Solver()
        sol.set("rlimit", 600000)  # deterministic (about 300 ms idle); wall clock only as a safety net
        sol.set("timeout", 2000)
        for a in st.pc:
            if self._qf(a):
                sol.add(a)
        return sol.check() != z3.unsat

    def exec_stmt(self, st, stmt):
        """Run one statement with NeedSplit-driven path splitting."""
        results = []
        pending = [st]
        guard = 0
        while pending:
            guard += 1
            if guard > 400:
                raise Unsupported("path explosion in one statement")
            s0 = pending.pop()
            s = s0.clone()
            nobl = len(self.obligations)
            try:
                m = getattr(self, "s_" + type(stmt).__name__, None)
                ab = self.abstracted(stmt)
                if ab is not None:
                    outs = self.s_abstract(s, stmt, ab)
                elif m is None:
                    raise Unsupported(f"statement {type(stmt).__name__}")
                else:
                    outs = m(s, stmt)
                for s2, oc in outs:
                    s2.nstmt += 1
                    results.append((s2, oc))
            except NeedSplit as ns:
                del self.obligations[nobl:]
                for c in (ns.cond, z3.Not(ns.cond)):
                    s1 = s0.clone()
                    s1.assume(c)
                    if self.feasible(s1):
                        pending.append(s1)
            except RaiseSignal as rs:
                s.nstmt += 1
                results.append((s, ("raise", rs.exc)))
            except PathEnd:
                pass
        return results

    def abstracted(self, stmt):
        """contract.abstract_stmts: {first line of the statement's source: [local names]} - the statement is
        replaced by 'these locals now hold arbitrary values of their declared types'."""
        table = getattr(self.contract, "abstract_stmts", None)
        if not table:
            return None
        try:
            head = ast.unparse(stmt).splitlines()[0].strip()
        except Exception:  # noqa: BLE001
            return None
        for prefix, names in table.items():
            if head.startswith(prefix):
                return list(names)
        return None

    def s_abstract(self, st, stmt, names):
        """Sound over-approximation of a statement that writes only the listed locals: a frame check on the
        AST (every name it assigns and every object it mutates is one of them), then havoc."""
        from .loops import modified_paths

        wnames, wpaths = modified_paths(self, [stmt])
        if isinstance(stmt, ast.For):
            for n in ast.walk(stmt.target):
                if isinstance(n, ast.Name):
                    wnames.add(n.id)
        dotted = {tuple(n.split(".")) for n in names if "." in n}
        bad = [n for n in wnames if n not in names] + [
            ".".join(pth) for pth in wpaths
            if pth[0] not in names and not any(pth[: len(d)] == d for d in dotted)]
        if bad:
            raise Unsupported(f"abstracted statement at line {self.line(stmt)} also writes {sorted(set(bad))}")
        def own_nodes(n):
            # the statement's own nodes: the bodies of nested function definitions run when those are called, not here
            yield n
            for ch in ast.iter_child_nodes(n):
                if isinstance(ch, (ast.FunctionDef, ast.AsyncFunctionDef, ast.Lambda)):
                    if isinstance(ch, ast.FunctionDef) and ch.name not in names:
                        raise Unsupported(f"abstracted statement at line {self.line(stmt)} also defines {ch.name}")
                    continue
                yield from own_nodes(ch)

        for node in own_nodes(stmt):
            if isinstance(node, (ast.Return, ast.Raise, ast.Yield, ast.YieldFrom, ast.Break, ast.Continue)):
                raise Unsupported(f"abstracted statement at line {self.line(stmt)} changes control flow")
        for n in names:
            if "." in n:
                # an attribute path of a heap object (e.g. self.nodes): its declared field type
                from .loops import havoc_path

                parts = n.split(".")
                root = st.vars.get(parts[0])
                if root is None:
                    raise Unsupported(f"abstracted path {n}: unknown root")
                havoc_path(self, st, stmt, root, tuple(parts[1:]), f"abs.{n}")
                continue
            t = self.contract.hints.get(n)
            if t is None:
                raise Unsupported(f"abstracted local {n} has no declared type")
            v = self.havoc_t(st, t, f"abs.{n}", stmt)
            for f in Ty.wf(v, f"abs.{n}"):
                st.assume(f)
            st.vars[n] = self.alloc(st, v) if t.mutable else v
            if ("bound!" + n) in st.vars:
                st.vars["bound!" + n] = Ty.mk_bool(True)  # (the abstracted statement assigns the locals it lists)
        self.dropped.append(f"statement at line {self.line(stmt)} abstracted: locals {names} hold arbitrary values afterwards ({ast.unparse(stmt).splitlines()[0][:70]})")
        return [(st, "normal")]

    def s_Pass(self, st, stmt):
        return [(st, "normal")]

    def s_Import(self, st, stmt):
        return [(st, "normal")]

    s_ImportFrom = s_Import

    def s_Expr(self, st, stmt):
        if isinstance(stmt.value, ast.Constant):
            return [(st, "normal")]  # docstring
        self.eval(st, stmt.value)
        return [(st, "normal")]

    def s_Assert(self, st, stmt):
        c = self.truth(st, self.eval(st, stmt.test))
        self.oblige(st, c, f"assert at line {self.line(stmt)}", "assert", stmt)
        return [(st, "normal")]

    def s_Return(self, st, stmt):
        if stmt.value is None:
            v = Ty.mk_none()
        elif isinstance(stmt.value, ast.IfExp) and not self._scalar_ifexp(st, stmt.value):
            c = self.truth(st, self.eval(st, stmt.value.test))
            b = self.concrete_bool(st, c)
            v = self.eval(st, stmt.value.body if b else stmt.value.orelse)
        else:
            v = self.eval(st, stmt.value)
        return [(st, ("return", v))]

    def _scalar_ifexp(self, st, node):
        return False

    def s_Raise(self, st, stmt):
        name = "Exception"
        if stmt.exc is not None:
            e = stmt.exc
            if isinstance(e, ast.Call):
                e = e.func
            if isinstance(e, ast.Name):
                name = e.id
                bound_v = st.vars.get(name)
                if isinstance(bound_v, PyConst) and isinstance(bound_v.val, tuple) and bound_v.val and bound_v.val[0] == "exc":
                    name = bound_v.val[1]  # re-raise of a caught exception object
                elif name in st.vars or name in self.bound:
                    name = getattr(st, "caught", "Exception")
        return [(st, ("raise", name))]

    def s_Delete(self, st, stmt):
        for tgt in stmt.targets:
            if not isinstance(tgt, ast.Subscript):
                raise Unsupported("del of non-subscript")
            base = self.eval(st, tgt.value)
            bv = self.deref(st, base)
            if not isinstance(base, Ref):
                raise Unsupported("del on a value")
            idx = self.eval(st, tgt.slice)
            if isinstance(bv.t, Ty.List):
                from . import calls

                calls.list_pop(self, st, base, bv, idx, tgt)
            elif isinstance(bv.t, Ty.Map):
                k = self.keyterm(self.deref(st, idx))
                if not getattr(bv.t, "del_missing_ok", False):
                    self.oblige(st, bv.c[0][k], f"deleted key present at line {self.line(tgt)}", "safety", tgt)
                st.heap[base.id] = V(bv.t, [z3.Store(bv.c[0], k, False)] + bv.c[1:])
            else:
                raise Unsupported(f"del on {bv.t}")
        return [(st, "normal")]

    def assign_target(self, st, tgt, val, node):
        if isinstance(tgt, ast.Name):
            ht = self.contract.hints.get(tgt.id)
            if isinstance(ht, Ty.Opt) and isinstance(val, V) and not isinstance(val.t, Ty.Opt) and (isinstance(val.t, Ty._None) or repr(val.t) == repr(ht.t)):
                # a local the contract types Optional: `x = None` / `x = value` keep that type (so that loop heads can join them)
                val = self.coerce(val, ht)
            if isinstance(val, V) and val.t.mutable:
                val = self.alloc(st, val)
            st.vars[tgt.id] = val
            if ("bound!" + tgt.id) in st.vars:
                st.vars["bound!" + tgt.id] = Ty.mk_bool(True)
            return
        if isinstance(tgt, (ast.Tuple, ast.List)):
            vv = self.deref(st, val)
            if isinstance(vv, V) and isinstance(vv.t, Ty.Tuple):
                parts = Ty.split(vv.t, vv.c)
                stars = [i for i, e in enumerate(tgt.elts) if isinstance(e, ast.Starred)]
                if len(stars) == 1:
                    # a, *rest, z = <fixed-arity tuple>
                    si = stars[0]
                    nafter = len(tgt.elts) - si - 1
                    if len(parts) < len(tgt.elts) - 1:
                        raise Unsupported("unpack arity mismatch")
                    for e, p in zip(tgt.elts[:si], parts[:si]):
                        self.assign_target(st, e, self.box(st, p), node)
                    mid = parts[si : len(parts) - nafter]
                    # python binds a list; its fixed arity lets us keep a tuple
                    self.assign_target(st, tgt.elts[si].value, Ty.mk_tuple(mid), node)
                    for e, p in zip(tgt.elts[si + 1 :], parts[len(parts) - nafter :]):
                        self.assign_target(st, e, self.box(st, p), node)
                    return
                if stars:
                    raise Unsupported("starred unpack")
                if len(parts) != len(tgt.elts):
                    raise Unsupported("unpack arity mismatch")
                for e, p in zip(tgt.elts, parts):
                    self.assign_target(st, e, self.box(st, p), node)
                return
            if (isinstance(vv, V) and isinstance(vv.t, Ty.List) and len(tgt.elts) == 2 and isinstance(tgt.elts[1], ast.Starred)
                    and not isinstance(tgt.elts[0], ast.Starred)):
                # first, *rest = <sequence>: needs at least one element
                self.oblige(st, vv.c[0] >= 1, f"unpacking needs at least one element at line {self.line(node)}", "safety", node)
                self.assign_target(st, tgt.elts[0], self.box(st, self.elem(vv, z3.IntVal(0))), node)
                p_ = z3.Int("rest!p")
                rest = V(vv.t, [vv.c[0] - 1] + [z3.Lambda([p_], a[p_ + 1]) for a in vv.c[1:]])
                self.assign_target(st, tgt.elts[1].value, self.alloc(st, rest), node)
                return
            if isinstance(vv, V) and isinstance(vv.t, Ty.List):
                ln = z3.simplify(vv.c[0])
                if z3.is_int_value(ln) and ln.as_long() == len(tgt.elts) and not any(isinstance(e, ast.Starred) for e in tgt.elts):
                    for p_, e in enumerate(tgt.elts):
                        self.assign_target(st, e, self.box(st, self.elem(vv, z3.IntVal(p_))), node)
                    return
            raise Unsupported(f"unpack of {vv}")
        if isinstance(tgt, ast.Subscript):
            base = self.eval(st, tgt.value)
            idx = self.eval(st, tgt.slice)
            if not isinstance(idx, PyConst):
                idx = self.deref(st, idx)
            val = self.unbox_value(st, val) if not isinstance(val, V) else val
            if isinstance(base, Ref):
                bv = st.heap[base.id]
                if isinstance(bv.t, Ty.ODict):
                    from . import calls

                    calls.odict_store(self, st, base, bv, self.keyterm(idx), self.narrow(st, val, bv.t.v, tgt))
                    return
                st.heap[base.id] = self.functional_store(st, bv, idx, val, tgt)
                return
            # nested container held by value inside another one: update it and
            # write the new value back through the enclosing l-value
            if not isinstance(base, V):
                raise Unsupported("subscript store on a non-container")
            self.lv_set(st, tgt.value, self.functional_store(st, base, idx, val, tgt), tgt)
            return
        if isinstance(tgt, ast.Attribute):
            base = self.eval(st, tgt.value)
            ob = self.deref(st, base)
            if not isinstance(ob, Obj):
                raise Unsupported("attribute store on non-object")
            decl = base.t.fields.get(tgt.attr) if isinstance(base.t, ObjT) else None
            if decl is not None and not isinstance(val, Ref) and not isinstance(decl, ObjT) and not decl.mutable:
                val = self.narrow(st, val, decl, tgt)
            if isinstance(val, V) and val.t.mutable:
                val = self.alloc(st, val)
            ob2 = ob.clone()
            ob2.fields[tgt.attr] = val
            st.heap[base.id] = ob2
            return
        raise Unsupported(f"assignment target {type(tgt).__name__}")

    def functional_store(self, st, bv, idx, val, node):
        t = bv.t
        if isinstance(t, Ty.List):
            i = self.num(idx)
            self.oblige(st, z3.And(0 <= i, i < bv.c[0]), f"list store index in range at line {self.line(node)}", "safety", node)
            val = self.narrow(st, val, t.e, node)
            return V(t, [bv.c[0]] + [z3.Store(a, i, c) for a, c in zip(bv.c[1:], val.c)])
        if isinstance(t, Ty.Map):
            k = self.keyterm(self.key_not_none(st, idx, node))
            val = self.narrow(st, val, t.v, node)
            return V(t, [z3.Store(bv.c[0], k, True)] + [z3.Store(a, k, c) for a, c in zip(bv.c[1:], val.c)])
        if isinstance(t, Ty.SDict):
            if not (isinstance(idx, PyConst) and isinstance(idx.val, str)):
                raise Unsupported("string-keyed dict indexed by a computed key")
            off = t.offsets()
            if idx.val not in off:
                raise Unsupported(f"key {idx.val!r} outside the declared fields of {t}")
            a, b, c, ft = off[idx.val]
            val = self.narrow(st, val, ft, node)
            comps = list(bv.c)
            comps[a] = z3.BoolVal(True)
            comps[b:c] = val.c
            return V(t, comps)
        raise Unsupported(f"subscript store on {t}")

    def lv_set(self, st, expr, newval, node):
        """Write `newval` into the location denoted by `expr`."""
        if isinstance(expr, ast.Name):
            cur = st.vars.get(expr.id)
            if isinstance(cur, Ref):
                st.heap[cur.id] = newval
            else:
                st.vars[expr.id] = newval
            return
        if isinstance(expr, ast.Attribute):
            base = self.eval(st, expr.value)
            ob = self.deref(st, base)
            if not isinstance(ob, Obj):
                raise Unsupported("write-back through a non-object attribute")
            cur = ob.fields.get(expr.attr)
            if isinstance(cur, Ref):
                st.heap[cur.id] = newval
            else:
                ob2 = ob.clone()
                ob2.fields[expr.attr] = newval
                st.heap[base.id] = ob2
            return
        if isinstance(expr, ast.Subscript):
            cont = self.eval(st, expr.value)
            idx = self.eval(st, expr.slice)
            if not isinstance(idx, PyConst):
                idx = self.deref(st, idx)
            if isinstance(cont, Ref):
                st.heap[cont.id] = self.functional_store(st, st.heap[cont.id], idx, newval, node)
            else:
                self.lv_set(st, expr.value, self.functional_store(st, cont, idx, newval, node), node)
            return
        raise Unsupported("write-back through this expression")

    def view_of_entry(self, st, cont_expr, key_expr, val):
        """If `cont_expr` denotes a dict on the heap whose values are mutable, bind the value as a view of that entry."""
        if not (isinstance(val, (V, Ref))):
            return val
        vv = self.deref(st, val)
        if not (isinstance(vv, V) and vv.t.mutable):
            return val
        try:
            base = self.eval(st, cont_expr)
        except Unsupported:
            return val
        if not isinstance(base, Ref):
            return val
        cont = st.heap[base.id]
        if isinstance(cont, V) and isinstance(cont.t, Ty.List) and cont.t.e.mutable and len(cont.t.e.sorts()) == len(vv.c):
            # x = lst[i]: x IS the i-th element (non-negative index)
            if z3.is_expr(key_expr):
                key = key_expr
            else:
                key = self.num(self.eval(st, key_expr))
                key = z3.If(key < 0, cont.c[0] + key, key)
            ref = val if isinstance(val, Ref) else self.alloc(st, vv)
            st.heap.add_view(ref.id, base.id, key)
            return ref
        if not (isinstance(cont, V) and isinstance(cont.t, (Ty.Map, Ty.ODict)) and cont.t.v.mutable and len(cont.t.v.sorts()) == len(vv.c)):
            return val
        key = key_expr if z3.is_expr(key_expr) else self.keyterm(self.deref(st, self.eval(st, key_expr)))
        ref = val if isinstance(val, Ref) else self.alloc(st, vv)
        st.heap.add_view(ref.id, base.id, key)
        return ref

    def s_Assign(self, st, stmt):
        for t in stmt.targets:
            if isinstance(t, ast.Name):
                stmt.value._target_name = t.id
        if isinstance(stmt.value, ast.IfExp):
            c = self.truth(st, self.eval(st, stmt.value.test))
            b = self.concrete_bool(st, c)
            val = self.eval(st, stmt.value.body if b else stmt.value.orelse)
        else:
            val = self.eval(st, stmt.value)
        if len(stmt.targets) == 1 and isinstance(stmt.targets[0], ast.Name):
            sv = stmt.value
            if isinstance(sv, ast.Subscript) and not isinstance(sv.slice, ast.Slice):
                val = self.view_of_entry(st, sv.value, sv.slice, val)  # x = d[k]: x IS the entry
            elif isinstance(sv, ast.Call) and isinstance(sv.func, ast.Attribute) and sv.func.attr == "setdefault" and len(sv.args) == 2:
                val = self.view_of_entry(st, sv.func.value, sv.args[0], val)  # x = d.setdefault(k, v)
        for t in stmt.targets:
            self.assign_target(st, t, val, stmt)
        return [(st, "normal")]

    def s_AnnAssign(self, st, stmt):
        if stmt.value is None:
            return [(st, "normal")]
        val = self.eval(st, stmt.value)
        self.assign_target(st, stmt.target, val, stmt)
        return [(st, "normal")]

    def s_AugAssign(self, st, stmt):
        load = _copy.copy(stmt.target)
        load.ctx = ast.Load()
        ast.fix_missing_locations(load)
        cur = self.eval(st, load)
        rhs = self.eval(st, stmt.value)
        curv = self.deref(st, cur)
        if isinstance(curv, V) and isinstance(curv.t, Ty.Set) and isinstance(cur, Ref):
            rv = self.deref(st, rhs)
            if isinstance(stmt.op, ast.BitOr):
                st.heap[cur.id] = V(curv.t, [z3.SetUnion(curv.c[0], rv.c[0])])
                return [(st, "normal")]
            if isinstance(stmt.op, ast.Sub):
                st.heap[cur.id] = V(curv.t, [z3.SetDifference(curv.c[0], rv.c[0])])
                return [(st, "normal")]
        val = self.arith(st, stmt.op, cur, rhs, stmt)
        self.assign_target(st, stmt.target, val, stmt)
        return [(st, "normal")]

    def s_If(self, st, stmt):
        if _is_progbar_test(stmt.test):
            self.dropped.append(f"`if progbar:` branch at line {self.line(stmt)}")
            return self.exec_block(st, stmt.orelse)
        c = self.truth(st, self.eval(st, stmt.test))
        b = self.concrete_bool(st, c)
        self.narrow_names(st, stmt.test, bool(b))
        return self.exec_block(st, stmt.body if b else stmt.orelse)

    def s_Try(self, st, stmt):
        if stmt.finalbody and not stmt.handlers:
            # try/finally: run body then finalbody on every outcome
            outs = []
            for s, oc in self.exec_block(st, stmt.body):
                for s2, oc2 in self.exec_block(s, stmt.finalbody):
                    outs.append((s2, oc if oc2 == "normal" else oc2))
            return outs
        names = []
        for h in stmt.handlers:
            if h.type is None:
                names.append(("*", h))
            elif isinstance(h.type, ast.Name):
                names.append((h.type.id, h))
            elif isinstance(h.type, ast.Tuple):
                for e in h.type.elts:
                    names.append((ast.unparse(e).split(".")[-1], h))
            else:
                names.append((ast.unparse(h.type).split(".")[-1], h))
        prev = getattr(st, "catch", ())
        st.catch = tuple(set(prev) | {n for n, _ in names})
        outs = []
        for s, oc in self.exec_block(st, stmt.body):
            s.catch = prev
            if isinstance(oc, tuple) and oc[0] == "raise":
                handler = None
                for n, h in names:
                    if n == "*" or n == oc[1] or n == "Exception" or (n, oc[1]) in EXC_SUB:
                        handler = h
                        break
                if handler is not None:
                    s.caught = oc[1]
                    if handler.name:
                        s.vars[handler.name] = PyConst(("exc", oc[1]))
                    for s2, oc2 in self.exec_block(s, handler.body):
                        if handler.name and handler.name in s2.vars:
                            # python unbinds the name at the end of the handler
                            s2.vars = dict(s2.vars)
                            del s2.vars[handler.name]
                        outs.append((s2, oc2))
                    continue
                outs.append((s, oc))
            elif oc == "normal" and stmt.orelse:
                outs.extend(self.exec_block(s, stmt.orelse))
            else:
                outs.append((s, oc))
        if stmt.finalbody:
            outs2 = []
            for s, oc in outs:
                for s2, oc2 in self.exec_block(s, stmt.finalbody):
                    outs2.append((s2, oc if oc2 == "normal" else oc2))
            outs = outs2
        return outs

    def s_With(self, st, stmt):
        from . import calls

        return calls.exec_with(self, st, stmt)

    def s_FunctionDef(self, st, stmt):
        st.vars[stmt.name] = PyConst(("def", stmt))
        return [(st, "normal")]

    def s_While(self, st, stmt):
        from . import loops

        return loops.exec_while(self, st, stmt)

    def s_For(self, st, stmt):
        from . import loops

        return loops.exec_for(self, st, stmt)

    def s_Break(self, st, stmt):
        return [(st, "break")]

    def s_Continue(self, st, stmt):
        return [(st, "continue")]

    def s_Global(self, st, stmt):
        raise Unsupported("global statement")

    s_Nonlocal = s_Global


class RaiseSignal(Exception):
    def __init__(self, exc):
        self.exc = exc


EXC_SUB = {
    ("LookupError", "KeyError"), ("LookupError", "IndexError"),
    ("OSError", "FileNotFoundError"), ("ArithmeticError", "ZeroDivisionError"),
}
