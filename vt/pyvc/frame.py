"""Syntactic frame / effect obligations over the real source (AST + call
graph).  These are the contract clauses that are about *what a function may
read, write or call* rather than about values: purity of lru_cache'd parsers,
seed threading, copy completeness, thread-keyed state.  They are decided by
inspection of the AST of the working tree on every run (backend 'ast'); a
failing syntactic obligation is reported as UNDECIDED (the bounded monitor of
the same property decides whether an input exists), never as a violation.
"""

from __future__ import annotations

import ast
import builtins
import importlib
import inspect
import textwrap
import types


def resolve(target):
    modname, qual = target.split(":")
    mod = importlib.import_module(modname)
    obj = mod
    cls = None
    for p in qual.split("."):
        if isinstance(obj, type):
            cls = obj
            obj = obj.__dict__[p]
        else:
            obj = getattr(obj, p)
    while True:
        if isinstance(obj, (staticmethod, classmethod)):
            obj = obj.__func__
        elif isinstance(obj, property):
            obj = obj.fget
        elif hasattr(obj, "__wrapped__"):
            obj = obj.__wrapped__
        else:
            break
    return mod, cls, obj


def fn_ast(obj):
    src = textwrap.dedent(inspect.getsource(obj))
    return ast.parse(src).body[0]


def local_names(fn):
    names = {a.arg for a in fn.args.posonlyargs + fn.args.args + fn.args.kwonlyargs}
    if fn.args.vararg:
        names.add(fn.args.vararg.arg)
    if fn.args.kwarg:
        names.add(fn.args.kwarg.arg)
    for n in ast.walk(fn):
        if isinstance(n, ast.Name) and isinstance(n.ctx, (ast.Store, ast.Del)):
            names.add(n.id)
        elif isinstance(n, (ast.FunctionDef, ast.ClassDef)) and n is not fn:
            names.add(n.name)
        elif isinstance(n, (ast.Import, ast.ImportFrom)):
            for a in n.names:
                names.add((a.asname or a.name).split(".")[0])
        elif isinstance(n, ast.ExceptHandler) and n.name:
            names.add(n.name)
        elif isinstance(n, ast.arg):
            names.add(n.arg)
    return names


IMMUTABLE = (str, int, float, bool, tuple, frozenset, bytes, type(None), types.FunctionType, types.BuiltinFunctionType, type, types.ModuleType)


def purity(target, allow_globals=()):
    """The function reads only its parameters, locals, builtins and
    module-level immutable constants / functions / classes / modules; it has no
    `global`/`nonlocal`, stores no attribute or subscript on a non-local."""
    mod, cls, obj = resolve(target)
    fn = fn_ast(obj)
    loc = local_names(fn)
    out = []
    bad_reads = []
    for n in ast.walk(fn):
        if isinstance(n, (ast.Global, ast.Nonlocal)):
            out.append((f"no global/nonlocal statement", False, f"line {n.lineno}: {ast.unparse(n)}"))
        if isinstance(n, ast.Name) and isinstance(n.ctx, ast.Load) and n.id not in loc:
            if hasattr(builtins, n.id) or n.id in allow_globals:
                continue
            if not hasattr(mod, n.id):
                bad_reads.append(f"{n.id} (unresolved)")
                continue
            val = getattr(mod, n.id)
            if callable(val) and getattr(val, "cache_info", None) is not None:
                continue
            if not isinstance(val, IMMUTABLE) and not callable(val):
                bad_reads.append(f"{n.id}: mutable module-level {type(val).__name__}")
    out.append(("reads no mutable module-level state", not bad_reads, "; ".join(sorted(set(bad_reads)))))
    stores = []
    for n in ast.walk(fn):
        if isinstance(n, (ast.Attribute, ast.Subscript)) and isinstance(n.ctx, (ast.Store, ast.Del)):
            root = n
            while isinstance(root, (ast.Attribute, ast.Subscript)):
                root = root.value
            if isinstance(root, ast.Name) and root.id not in loc:
                stores.append(ast.unparse(n))
    out.append(("writes no non-local object", not stores, "; ".join(stores)))
    return out


def seed_threading(target, cls_for_self=None, extra_ok=(), seeded_callables=("partition_fn",)):
    """Every call inside the function to a callee that has a `seed`
    parameter passes a seed (not the constant None); there is no direct use of
    the global `random` module, numpy.random, or get_rng() without argument."""
    mod, cls, obj = resolve(target)
    fn = fn_ast(obj)
    cls = cls_for_self or cls
    out = []
    direct, unthreaded, checked = [], [], 0
    for n in ast.walk(fn):
        if not isinstance(n, ast.Call):
            continue
        forwarded = False
        f = n.func
        text = ast.unparse(f)
        # direct global RNG use
        if isinstance(f, ast.Attribute) and isinstance(f.value, ast.Name) and f.value.id == "random" and isinstance(getattr(mod, "random", None), types.ModuleType):
            if f.attr != "Random":
                direct.append(f"line {n.lineno}: {text}")
        if text.startswith(("np.random.", "numpy.random.")):
            direct.append(f"line {n.lineno}: {text}")
        callee = None
        if isinstance(f, ast.Name):
            callee = getattr(mod, f.id, None)
        elif isinstance(f, ast.Attribute) and cls is not None and isinstance(f.value, ast.Name) and f.value.id in ("self", "tree", "cls"):
            callee = getattr(cls, f.attr, None)
        elif isinstance(f, ast.Attribute) and isinstance(f.value, ast.Name) and f.value.id in ("tree", "rtree") :
            from cotengra.core import ContractionTree

            callee = getattr(ContractionTree, f.attr, None)
        if callee is None and isinstance(f, ast.Attribute) and f.attr in seeded_callables:
            # a callable parameter documented to take a seed (e.g. partition_fn)
            checked += 1
            kws = {kw.arg for kw in n.keywords}
            if "seed" not in kws:
                unthreaded.append(f"line {n.lineno}: {text}(...) is given no seed")
            continue
        if callee is None:
            continue
        # thin forwarders:  def f(tree, *args, **kwargs): return tree.meth(*args, **kwargs)
        try:
            cfn = fn_ast(callee) if isinstance(callee, types.FunctionType) else None
        except (OSError, TypeError):
            cfn = None
        if cfn is not None and cfn.args.kwarg is not None and len(cfn.body) >= 1 and isinstance(cfn.body[-1], ast.Return):
            rv = cfn.body[-1].value
            if isinstance(rv, ast.Call) and isinstance(rv.func, ast.Attribute) and isinstance(rv.func.value, ast.Name) and cfn.args.args and rv.func.value.id == cfn.args.args[0].arg:
                from cotengra.core import ContractionTree

                fwd = getattr(ContractionTree, rv.func.attr, None)
                if fwd is not None:
                    callee = fwd
                    forwarded = True
        if isinstance(callee, type):
            try:
                sig = inspect.signature(callee.__init__)
            except (TypeError, ValueError):
                continue
        else:
            c2 = callee
            while hasattr(c2, "__wrapped__"):
                c2 = c2.__wrapped__
            if isinstance(c2, __import__("functools").partial) or not callable(c2):
                continue
            try:
                sig = inspect.signature(c2)
            except (TypeError, ValueError):
                continue
        if "seed" not in sig.parameters:
            continue
        checked += 1
        name = getattr(callee, "__name__", text)
        if name in extra_ok:
            continue
        params = [p for p in sig.parameters if p not in ("self", "cls")]
        pos = params.index("seed")
        passed = None
        for kw in n.keywords:
            if kw.arg == "seed":
                passed = kw.value
            if kw.arg is None:
                # **opts: look for the dict display(s) in this function that
                # build those options (string keys that are callee parameters)
                carries = None
                for d in ast.walk(fn):
                    if isinstance(d, ast.Dict) and d.keys and all(isinstance(k, ast.Constant) and isinstance(k.value, str) for k in d.keys):
                        ks = [k.value for k in d.keys]
                        if sum(k in sig.parameters for k in ks) >= 2:
                            carries = ("seed" in ks) if carries is None else (carries and "seed" in ks)
                if carries is False:
                    unthreaded.append(f"line {n.lineno}: {text}(**opts) where the options dict has no 'seed' entry")
                passed = passed or kw.value
        if passed is None and len(n.args) > pos and not any(isinstance(a, ast.Starred) for a in n.args):
            passed = n.args[pos]
        if passed is None:
            if text == "get_rng":
                direct.append(f"line {n.lineno}: get_rng() without a seed")
            else:
                unthreaded.append(f"line {n.lineno}: {text}(...) is given no seed")
        elif isinstance(passed, ast.Constant) and passed.value is None:
            unthreaded.append(f"line {n.lineno}: {text}(..., seed=None)")
    out.append(("no direct use of the global RNG", not direct, "; ".join(direct)))
    out.append((f"seed threaded into every seeded callee ({checked} call sites)", not unthreaded, "; ".join(unthreaded)))
    return out


def copy_completeness(cls_target, init="__init__", copier="set_state_from"):
    """Every attribute assigned in __init__ is transferred by the copier, and
    every attribute that some method mutates in place is *copied*, not
    aliased."""
    modname, clsname = cls_target.split(":")
    mod = importlib.import_module(modname)
    cls = getattr(mod, clsname)
    init_fn = fn_ast(cls.__dict__[init])
    cp_fn = fn_ast(cls.__dict__[copier])
    init_attrs = []
    for n in ast.walk(init_fn):
        if isinstance(n, ast.Attribute) and isinstance(n.ctx, ast.Store) and isinstance(n.value, ast.Name) and n.value.id == "self":
            if n.attr not in init_attrs:
                init_attrs.append(n.attr)
    aliased, copied = set(), set()
    for n in ast.walk(cp_fn):
        if isinstance(n, ast.For) and isinstance(n.iter, (ast.Tuple, ast.List)) and all(isinstance(e, ast.Constant) for e in n.iter.elts):
            names = [e.value for e in n.iter.elts]
            body = ast.unparse(n.body)
            deep = ".copy()" in body
            for a in names:
                (copied if deep else aliased).add(a)
        if isinstance(n, ast.Assign):
            for t in n.targets:
                if isinstance(t, ast.Attribute) and isinstance(t.value, ast.Name) and t.value.id == "self":
                    rhs = ast.unparse(n.value)
                    (copied if ".copy()" in rhs else aliased).add(t.attr)
    # attributes mutated in place by any method of the class (outside __init__)
    mutated = {}
    src_cls = ast.parse(textwrap.dedent(inspect.getsource(cls))).body[0]
    MUT = {"append", "pop", "add", "discard", "extend", "insert", "sort", "clear", "update", "setdefault", "remove", "popitem"}
    for meth in src_cls.body:
        if not isinstance(meth, ast.FunctionDef) or meth.name in (init, copier):
            continue
        # names that alias self in this method (tree = self if inplace else self.copy())
        selfs = {"self", "tree"}
        for n in ast.walk(meth):
            tgt = None
            if isinstance(n, (ast.Subscript,)) and isinstance(n.ctx, (ast.Store, ast.Del)):
                tgt = n.value
            elif isinstance(n, ast.Call) and isinstance(n.func, ast.Attribute) and n.func.attr in MUT:
                tgt = n.func.value
            elif isinstance(n, ast.AugAssign) and isinstance(n.target, ast.Subscript):
                tgt = n.target.value
            if tgt is None:
                continue
            # walk down subscripts: self.info[node][k] -> self.info
            while isinstance(tgt, ast.Subscript):
                tgt = tgt.value
            if isinstance(tgt, ast.Attribute) and isinstance(tgt.value, ast.Name) and tgt.value.id in selfs:
                mutated.setdefault(tgt.attr, meth.name)
    out = []
    missing = [a for a in init_attrs if a not in aliased and a not in copied]
    out.append((f"every attribute assigned in {init} is transferred by {copier} ({len(init_attrs)} attributes)", not missing, ", ".join(missing)))
    alias_mut = [f"{a} (mutated in place by {mutated[a]})" for a in sorted(aliased) if a in mutated and a in init_attrs]
    out.append((f"attributes mutated in place are copied, not aliased, by {copier}", not alias_mut, ", ".join(alias_mut)))
    return out


def keyed_by_thread(target, attr):
    """Every subscript access to self.<attr> uses threading.get_ident() (or a
    local assigned from it) as the key; .get(key, ...) likewise."""
    mod, cls, obj = resolve(target)
    fn = fn_ast(obj)
    ident_locals = set()
    for n in ast.walk(fn):
        if isinstance(n, ast.Assign) and ast.unparse(n.value) == "threading.get_ident()":
            for t in n.targets:
                if isinstance(t, ast.Name):
                    ident_locals.add(t.id)

    def is_ident(e):
        return ast.unparse(e) == "threading.get_ident()" or (isinstance(e, ast.Name) and e.id in ident_locals)

    bad, seen = [], 0
    for n in ast.walk(fn):
        if isinstance(n, ast.Subscript) and ast.unparse(n.value) == f"self.{attr}":
            seen += 1
            if not is_ident(n.slice):
                bad.append(f"line {n.lineno}: {ast.unparse(n)}")
        if isinstance(n, ast.Call) and isinstance(n.func, ast.Attribute) and ast.unparse(n.func.value) == f"self.{attr}":
            seen += 1
            if n.func.attr not in ("get", "pop", "setdefault") or not n.args or not is_ident(n.args[0]):
                bad.append(f"line {n.lineno}: {ast.unparse(n)}")
    return [(f"every access to self.{attr} is keyed by threading.get_ident() ({seen} accesses)", seen > 0 and not bad, "; ".join(bad) or ("no access found" if not seen else ""))]


def same_call_in_branches(target, callee_name):
    """All calls to `callee_name` inside the function pass syntactically the
    same arguments (the cached and the uncached branch compute the same
    thing)."""
    mod, cls, obj = resolve(target)
    fn = fn_ast(obj)
    calls = []
    for n in ast.walk(fn):
        if isinstance(n, ast.Call) and ast.unparse(n.func) == callee_name:
            calls.append(ast.unparse(ast.Call(func=ast.Name(id="f", ctx=ast.Load()), args=n.args, keywords=n.keywords)))
    ok = len(calls) >= 2 and len(set(calls)) == 1
    return [(f"cached and uncached branches call {callee_name} with identical arguments ({len(calls)} call sites)", ok, " | ".join(sorted(set(calls))))]


def key_covers_parameters(target, injective=("tuple", "map", "frozenset", "hash_prepare_optimize", "tuplify_path", "items")):
    """The returned cache key is a tuple in which every parameter occurs under
    injective constructors only, and hash() is not applied to it."""
    mod, cls, obj = resolve(target)
    fn = fn_ast(obj)
    params = [a.arg for a in fn.args.args] + ([fn.args.kwarg.arg] if fn.args.kwarg else [])
    rets = [n for n in ast.walk(fn) if isinstance(n, ast.Return)]
    out = []
    uses_hash = [f"line {n.lineno}" for n in ast.walk(fn) if isinstance(n, ast.Call) and isinstance(n.func, ast.Name) and n.func.id == "hash"]
    out.append(("the key is not reduced through hash()", not uses_hash, ", ".join(uses_hash)))
    ok = len(rets) == 1 and isinstance(rets[0].value, ast.Tuple)
    detail = ""
    if ok:
        # resolve simple reassignments  p = f(p)
        defs = {}
        for n in fn.body:
            if isinstance(n, ast.Assign) and len(n.targets) == 1 and isinstance(n.targets[0], ast.Name):
                defs[n.targets[0].id] = n.value
        covered = set()
        bad_ctor = []

        def visit(e):
            if isinstance(e, ast.Name):
                if e.id in defs and e.id not in covered:
                    covered.add(e.id)
                    visit(defs[e.id])
                elif e.id in params:
                    covered.add(e.id)
                return
            if isinstance(e, ast.Call):
                fname = e.func.attr if isinstance(e.func, ast.Attribute) else getattr(e.func, "id", "?")
                if fname not in injective:
                    bad_ctor.append(fname)
                if isinstance(e.func, ast.Attribute):
                    visit(e.func.value)
                for a in e.args:
                    visit(a)
                return
            if isinstance(e, (ast.Tuple, ast.List)):
                for x in e.elts:
                    visit(x)
                return
            if isinstance(e, ast.Constant):
                return
            bad_ctor.append(type(e).__name__)

        visit(rets[0].value)
        missing = [p for p in params if p not in covered]
        ok = not missing and not bad_ctor
        detail = (f"parameters not in the key: {missing}; " if missing else "") + (f"non-injective constructors: {sorted(set(bad_ctor))}" if bad_ctor else "")
    else:
        detail = "return value is not a tuple display"
    out.append((f"every parameter {params} occurs in the returned key under injective constructors", ok, detail))
    return out


def single_leg_rule(cls_target, rule="compute_contracted", sink="contract_nodes", param="new_legs"):
    """C18: inside the class, the legs handed to `sink` (third positional argument or keyword `param`) always come
    from the one proved leg rule `rule`: the argument is a local name every binding of which in that method is a
    call of `rule`, or the unpacking of an entry of a local container whose stores put such a name at the same
    tuple position; and `sink` itself binds `param` only from `rule`.  A sufficient condition on the AST."""
    mod, _c, cls = resolve(cls_target)
    tree = fn_ast(cls)
    out, ncalls, bad = [], 0, []

    def is_rule_call(v):
        return isinstance(v, ast.Call) and isinstance(v.func, ast.Name) and v.func.id == rule

    def bindings(fn, name):
        """(kind, payload) for every binding of `name` in fn: ('value', expr) | ('unpack', (pos, expr)) | ('other', node)"""
        res = []
        for n in ast.walk(fn):
            if isinstance(n, ast.Assign):
                for t in n.targets:
                    if isinstance(t, ast.Name) and t.id == name:
                        res.append(("value", n.value))
                    elif isinstance(t, (ast.Tuple, ast.List)):
                        for p, e in enumerate(t.elts):
                            if isinstance(e, ast.Name) and e.id == name:
                                res.append(("unpack", (p, n.value)))
                            elif any(isinstance(x, ast.Name) and x.id == name for x in ast.walk(e)):
                                res.append(("other", n))
            elif isinstance(n, (ast.AugAssign, ast.AnnAssign, ast.NamedExpr)) and any(
                    isinstance(x, ast.Name) and x.id == name and isinstance(x.ctx, ast.Store) for x in ast.walk(n)):
                res.append(("other", n))
            elif isinstance(n, (ast.For, ast.comprehension)) and any(isinstance(x, ast.Name) and x.id == name for x in ast.walk(n.target)):
                res.append(("other", n))
            elif isinstance(n, ast.arg) and n.arg == name:
                res.append(("param", n))
        return res

    def derived(fn, name, visiting=frozenset(), allow_param=False):
        # greatest fixed point: a name met again while it is being examined is accepted - values enter such a
        # cycle only through a binding that is checked (a call of the rule), everything else is rejected below
        if name in visiting:
            return True
        visiting = visiting | {name}
        bs = bindings(fn, name)
        if not bs:
            return False
        for kind, pl in bs:
            if kind == "param" and allow_param:
                continue
            if kind == "value" and is_rule_call(pl):
                continue
            if kind == "unpack":
                pos, src = pl
                cont = None
                if isinstance(src, ast.Call) and isinstance(src.func, ast.Attribute) and src.func.attr == "pop" and isinstance(src.func.value, ast.Name):
                    cont = src.func.value.id
                elif isinstance(src, ast.Subscript) and isinstance(src.value, ast.Name):
                    cont = src.value.id
                if cont is not None:
                    stores = [n for n in ast.walk(fn) if isinstance(n, ast.Assign) and any(
                        isinstance(t, ast.Subscript) and isinstance(t.value, ast.Name) and t.value.id == cont for t in n.targets)]
                    other_writes = [n for n in ast.walk(fn) if isinstance(n, ast.Call) and isinstance(n.func, ast.Attribute)
                                    and isinstance(n.func.value, ast.Name) and n.func.value.id == cont
                                    and n.func.attr in ("update", "setdefault", "append", "extend", "insert", "__setitem__")]
                    if stores and not other_writes and all(
                            isinstance(s.value, ast.Tuple) and len(s.value.elts) > pos and isinstance(s.value.elts[pos], ast.Name)
                            and derived(fn, s.value.elts[pos].id, visiting) for s in stores):
                        continue
            return False
        return True

    for fn in [n for n in tree.body if isinstance(n, ast.FunctionDef)]:
        for n in ast.walk(fn):
            if isinstance(n, ast.Call) and isinstance(n.func, ast.Attribute) and n.func.attr == sink:
                arg = n.args[2] if len(n.args) >= 3 else next((k.value for k in n.keywords if k.arg == param), None)
                if any(isinstance(a, ast.Starred) for a in n.args) and len(n.args) == 1:
                    # f(*nodes): the legs parameter is only reached if three values are unpacked; the callee's
                    # own obligations (two live ids) cover the arity, legs stay None
                    arg = None
                if any(k.arg is None for k in n.keywords):
                    bad.append(f"{fn.name} line {n.lineno}: **kwargs into {sink}")
                    continue
                ncalls += 1
                if arg is None or (isinstance(arg, ast.Constant) and arg.value is None):
                    continue
                if not (isinstance(arg, ast.Name) and derived(fn, arg.id)):
                    bad.append(f"{fn.name} line {n.lineno}: {ast.unparse(arg)} is not taken from {rule}()")
        if fn.name == sink and not derived(fn, param, allow_param=True):
            bad.append(f"{sink} binds {param} from something else than {rule}()")
    out.append((f"every call of {sink} takes its legs from {rule}() ({ncalls} call sites)", not bad and ncalls > 0, "; ".join(bad)))
    return out


def kwargs_forwarded(target, callee="cls"):
    """The function hands its **kwargs to `callee(...)` unchanged: the dict is never written (no item store or
    delete, no mutating method, no rebinding) and every `return` is a call of `callee` that spreads it."""
    mod, cls, obj = resolve(target)
    fn = fn_ast(obj)
    kw = fn.args.kwarg.arg if fn.args.kwarg is not None else None
    if kw is None:
        return [("the function has a **kwargs parameter", False, "no **kwargs")]
    writes = []
    for n in ast.walk(fn):
        if isinstance(n, (ast.Subscript, ast.Attribute)) and isinstance(n.ctx, (ast.Store, ast.Del)) and isinstance(n.value, ast.Name) and n.value.id == kw:
            writes.append(f"line {n.lineno}: {ast.unparse(n)}")
        if isinstance(n, ast.Name) and n.id == kw and isinstance(n.ctx, (ast.Store, ast.Del)):
            writes.append(f"line {n.lineno}: rebinds {kw}")
        if (isinstance(n, ast.Call) and isinstance(n.func, ast.Attribute) and isinstance(n.func.value, ast.Name) and n.func.value.id == kw
                and n.func.attr in ("setdefault", "update", "pop", "popitem", "clear", "__setitem__", "__delitem__")):
            writes.append(f"line {n.lineno}: {ast.unparse(n)[:60]}")
        if isinstance(n, ast.Call) and not (isinstance(n.func, ast.Name) and n.func.id == callee):
            # handing the dict itself to another function could mutate it
            if any(isinstance(a, ast.Name) and a.id == kw for a in n.args) or any(isinstance(k.value, ast.Name) and k.value.id == kw and k.arg is not None for k in n.keywords):
                writes.append(f"line {n.lineno}: {kw} escapes into {ast.unparse(n.func)}")
    rets = [n for n in ast.walk(fn) if isinstance(n, ast.Return)]
    bad_ret = [f"line {r.lineno}" for r in rets if not (
        isinstance(r.value, ast.Call) and isinstance(r.value.func, ast.Name) and r.value.func.id == callee
        and [k for k in r.value.keywords if k.arg is None and isinstance(k.value, ast.Name) and k.value.id == kw]
        and not [k for k in r.value.keywords if k.arg is not None])]
    return [
        (f"**{kw} is never written before it is forwarded", not writes, "; ".join(writes)),
        (f"every return is {callee}(..., **{kw}) with no keyword of its own ({len(rets)} returns)", bool(rets) and not bad_ret, "; ".join(bad_ret)),
    ]
