"""Loop rules: invariant cut for while/for, set-iteration rule for dict/set,
unrolling for fixed-arity tuples."""

from __future__ import annotations

import ast

import z3

from . import types as Ty
from .types import V, Int
from .engine import Unsupported, Ref, Obj, PyConst, MUTATORS, PathEnd


def loop_ordinal(engine, stmt):
    if not engine.loop_ordinals:
        n = 0
        for node in ast.walk(engine.fn):
            pass
        # source order
        loops = [x for x in ast.walk(engine.fn) if isinstance(x, (ast.For, ast.While))]
        loops.sort(key=lambda x: (x.lineno, x.col_offset))
        for i, x in enumerate(loops):
            engine.loop_ordinals[id(x)] = i
    return engine.loop_ordinals[id(stmt)]


# ---------------------------------------------------------------- modified
def _root_path(node):
    """x.a.b[...]  ->  ('x', 'a', 'b')"""
    path = []
    while True:
        if isinstance(node, ast.Subscript):
            node = node.value
        elif isinstance(node, ast.Attribute):
            path.append(node.attr)
            node = node.value
        elif isinstance(node, ast.Name):
            path.append(node.id)
            return tuple(reversed(path))
        else:
            return None


def alias_roots(engine):
    """name -> root path of the dict whose entry the name may be (x = d[k], x = d.setdefault(k, v),
    x = d.get(k), for k, x in d.items(), for x in d.values()): syntactic, whole function."""
    cached = getattr(engine, "_alias_roots", None)
    if cached is not None:
        return cached
    out = {}
    fn = getattr(engine, "fn", None)
    if fn is not None:
        for n in ast.walk(fn):
            if isinstance(n, ast.Assign) and len(n.targets) == 1 and isinstance(n.targets[0], ast.Name):
                v = n.value
                src = None
                if isinstance(v, ast.Subscript):
                    src = v.value
                elif isinstance(v, ast.Call) and isinstance(v.func, ast.Attribute) and v.func.attr in ("get", "setdefault", "pop"):
                    src = v.func.value
                rp = _root_path(src) if src is not None else None
                if rp:
                    out.setdefault(n.targets[0].id, set()).add(rp)
            elif isinstance(n, ast.For):
                it = n.iter
                if isinstance(it, ast.Call) and isinstance(it.func, ast.Attribute) and it.func.attr in ("items", "values"):
                    rp = _root_path(it.func.value)
                    if rp:
                        for t in ast.walk(n.target):
                            if isinstance(t, ast.Name):
                                out.setdefault(t.id, set()).add(rp)
    engine._alias_roots = out
    return out


def modified_paths(engine, body):
    names, paths = set(), set()
    aliases = alias_roots(engine)

    def through_alias(rp):
        # a change made through a name that may be a dict entry is a change of that dict
        if rp and rp[0] in aliases:
            for root in aliases[rp[0]]:
                paths.add(root)
                through_alias(root)

    def targets(t):
        if isinstance(t, ast.Name):
            names.add(t.id)
        elif isinstance(t, (ast.Tuple, ast.List)):
            for e in t.elts:
                targets(e)
        elif isinstance(t, (ast.Subscript, ast.Attribute)):
            rp = _root_path(t if isinstance(t, ast.Attribute) else t.value)
            if isinstance(t, ast.Attribute):
                rp = _root_path(t)
            if rp:
                paths.add(rp)
                through_alias(rp)
        elif isinstance(t, ast.Starred):
            targets(t.value)

    def declared(lst):
        for nm in lst:
            parts = tuple(nm.split("."))
            if len(parts) == 1:
                names.add(parts[0])
            else:
                paths.add(parts)
                through_alias(parts)

    for stmt in body:
        for node in ast.walk(stmt):
            if isinstance(node, ast.stmt):
                # a statement abstracted by the contract writes what the contract says it writes
                ab = engine.abstracted(node)
                if ab:
                    declared(ab)
            if isinstance(node, ast.Call):
                # an external (assumed contract) that declares effects: ext.modifies = ["<receiver>.<field>", ...] relative to its receiver
                fname = node.func.attr if isinstance(node.func, ast.Attribute) else (node.func.id if isinstance(node.func, ast.Name) else None)
                for ename, efn in engine.contract.externals.items():
                    if fname and (ename == fname or ename.endswith("." + fname)) and getattr(efn, "modifies", None):
                        recv = _root_path(node.func.value) if isinstance(node.func, ast.Attribute) else None
                        for m in efn.modifies:
                            if isinstance(m, int):
                                # the m-th positional argument is mutated in place
                                rp_arg = _root_path(node.args[m]) if m < len(node.args) else None
                                if rp_arg is not None:
                                    declared([".".join(rp_arg)])
                                continue
                            if m.startswith("self.") and recv:
                                declared([".".join(recv + tuple(m.split(".")[1:]))])
                            else:
                                declared([m])
            if isinstance(node, ast.Assign):
                for t in node.targets:
                    targets(t)
            elif isinstance(node, (ast.AugAssign, ast.AnnAssign)):
                targets(node.target)
            elif isinstance(node, ast.For):
                targets(node.target)
            elif isinstance(node, ast.Delete):
                for t in node.targets:
                    targets(t)
            elif isinstance(node, ast.With):
                for it in node.items:
                    if it.optional_vars is not None:
                        targets(it.optional_vars)
            elif isinstance(node, (ast.Yield, ast.YieldFrom)):
                names.add("__yields__")  # the hidden list of yielded values grows
            elif isinstance(node, ast.Call) and isinstance(node.func, ast.Attribute):
                meth = node.func.attr
                rp = _root_path(node.func.value)
                if rp is None:
                    continue
                if meth in MUTATORS:
                    paths.add(rp)
                    through_alias(rp)
                else:
                    # contracted method with a modifies clause
                    c = engine.resolve_method_contract(rp, meth)
                    if c is not None:
                        for m in c.modifies:
                            parts = m.split(".")
                            if parts[0] == "self":
                                parts = parts[1:]  # relative to the receiver
                            paths.add(rp + tuple(parts))
                            through_alias(rp + tuple(parts))
            elif isinstance(node, ast.Call) and isinstance(node.func, ast.Name):
                c = engine.resolve_function_contract(node.func.id)
                if c is not None:
                    for m in c.modifies:
                        # "argname.field" : find positional arg
                        parts = m.split(".")
                        argn = parts[0]
                        try:
                            pi = c.argnames.index(argn)
                        except ValueError:
                            continue
                        if pi < len(node.args):
                            rp = _root_path(node.args[pi])
                            if rp:
                                paths.add(rp + tuple(parts[1:]))
    return names, paths


def havoc_modified(engine, st, stmt, names, paths):
    # dict-entry views that are alive when the loop starts: after the havoc they are re-attached to the
    # (havoc'd) container at the same key, so that the name still IS the entry in an arbitrary iteration
    live_views = [(v[0], v[1], v[2]) for v in getattr(st.heap, "views", []) if not v[3]]
    view_vars = {}
    for vid, cid, key in live_views:
        for n, val in st.vars.items():
            if isinstance(val, Ref) and val.id == vid:
                view_vars.setdefault((vid, cid, key), []).append(n)
    _havoc_modified(engine, st, stmt, names, paths)
    for (vid, cid, key), vnames in view_vars.items():
        touched = any(n in names for n in vnames) or any(v[0] == vid and v[3] for v in st.heap.views)
        if not touched:
            continue
        cont = dict.__getitem__(st.heap, cid)
        if isinstance(cont, V) and isinstance(cont.t, Ty.List):
            val = engine.elem(cont, key)
            ref = engine.alloc(st, val)
            st.heap.add_view(ref.id, cid, key)
            for n in vnames:
                st.vars[n] = ref
            continue
        if not (isinstance(cont, V) and isinstance(cont.t, (Ty.Map, Ty.ODict))):
            continue
        mp = cont if isinstance(cont.t, Ty.Map) else V(cont.t.map_t, cont.c[len(cont.t.keys_t.sorts()):])
        st.assume(mp.c[0][key])  # the entry exists (the view was taken from it; loops deleting it are outside this model)
        val = engine.mapval(mp, key)
        ref = engine.alloc(st, val)
        st.heap.add_view(ref.id, cid, key)
        for n in vnames:
            st.vars[n] = ref


def _havoc_modified(engine, st, stmt, names, paths):
    for n in sorted(names):
        if n not in st.vars:
            continue
        cur = st.vars[n]
        if isinstance(cur, Ref):
            hv = dict.__getitem__(st.heap, cur.id)
            if isinstance(hv, V):
                # rebinding a container name: new identity + fresh content
                nv = engine.havoc_t(st, hv.t, f"lh.{n}", stmt)
                st.vars[n] = engine.alloc(st, nv)
                for f in Ty.wf(nv, f"lh.{n}"):
                    st.assume(f)
            else:
                raise Unsupported(f"loop rebinds object variable {n}")
        elif isinstance(cur, V):
            st.vars[n] = engine.havoc_t(st, cur.t, f"lh.{n}", stmt)
        elif isinstance(cur, PyConst) and isinstance(cur.val, tuple) and cur.val and cur.val[0] == "exc":
            st.vars[n] = PyConst(("exc", "Exception"))  # some caught exception
        elif isinstance(cur, PyConst):
            raise Unsupported(f"loop rebinds python-constant variable {n}")
    for p in sorted(paths):
        root = st.vars.get(p[0]) if p[0] in st.vars else engine.bound.get(p[0])
        if root is None:
            continue
        havoc_path(engine, st, stmt, root, p[1:], ".".join(p))


def havoc_path(engine, st, stmt, cur, attrs, label):
    if not isinstance(cur, Ref):
        return
    hv = dict.__getitem__(st.heap, cur.id)  # (a view made stale by an earlier havoc of its container is re-attached afterwards)
    if isinstance(hv, V):
        nv = engine.havoc_t(st, hv.t, f"lh.{label}", stmt)
        st.heap[cur.id] = nv
        for f in Ty.wf(nv, f"lh.{label}"):
            st.assume(f)
        return
    if isinstance(hv, Obj):
        if not attrs:
            # whole object mutated: havoc every field
            for a in list(hv.fields):
                havoc_path(engine, st, stmt, cur, (a,), label + "." + a)
            return
        a = attrs[0]
        if a not in hv.fields:
            return
        fv = hv.fields[a]
        if isinstance(fv, Ref):
            havoc_path(engine, st, stmt, fv, attrs[1:], label)
        elif isinstance(fv, V):
            ob2 = hv.clone()
            ob2.fields[a] = engine.havoc_t(st, fv.t, f"lh.{label}", stmt)
            st.heap[cur.id] = ob2


# ------------------------------------------------------------------ driver
class LoopCtl:
    """How one loop kind initialises, tests, begins and ends an iteration."""

    def init(self, st):
        pass

    def head_facts(self, st):
        return []

    def cond(self, st):
        raise NotImplementedError

    def begin(self, st):
        pass

    def end(self, st):
        pass

    def hidden(self):
        return []


def run_loop(engine, st, stmt, ctl):
    k = loop_ordinal(engine, stmt)
    spec = engine.contract.loops.get(k)
    if spec is None:
        raise Unsupported(f"loop {k} (line {engine.line(stmt)}) has no invariant")
    ctl.spec = spec
    ctl.init(st)
    for g, (ginit, _gstep) in spec.ghosts.items():
        st.vars[g] = engine.box(st, engine.unbox_value(st, engine.eval_spec_value(st, ginit)))
    names, paths = modified_paths(engine, stmt.body)
    # locals that are first assigned inside the loop (and typed by the contract): from here on they hold an
    # arbitrary value together with a flag `bound!<name>` (False now, True after an assignment, arbitrary at the
    # loop head unless an invariant says more); reading the local generates the obligation that the flag is set
    tnames0 = {n.id for n in ast.walk(stmt.target) if isinstance(n, ast.Name)} if isinstance(stmt, ast.For) else set()
    for n in sorted(names - tnames0):
        t = engine.contract.hints.get(n)
        if n not in st.vars and n not in engine.bound and t is not None and not n.startswith("bound!"):
            v = engine.havoc_t(st, t, f"unb.{n}", stmt)
            for f in Ty.wf(v, f"unb.{n}"):
                st.assume(f)
            st.vars[n] = engine.alloc(st, v) if t.mutable else v
            st.vars["bound!" + n] = Ty.mk_bool(False)
    names |= {"bound!" + n for n in names if ("bound!" + n) in st.vars}
    # 1. entry
    ctl.bind_head(st)
    st.loop_entry = (dict(st.vars), st.heap.plain())  # at_entry(e) in invariants: e in the state the loop was entered in
    for j, inv in enumerate(spec.inv):
        g = engine.eval_spec(st, inv)
        engine.oblige(st, g, f"loop {k} invariant {j} holds on entry: {inv}", "inv-entry", stmt)
    # 2. arbitrary iteration
    if isinstance(stmt, ast.For):
        # the element function of the iterable was fixed at loop entry: a body that
        # changes the container it iterates is outside this model
        itx = stmt.iter
        while isinstance(itx, ast.Call) and isinstance(itx.func, ast.Name) and itx.func.id in ("enumerate", "reversed", "list", "tuple", "sorted", "zip") and itx.args:
            itx = itx.args[0]
        if isinstance(itx, ast.Call) and isinstance(itx.func, ast.Attribute) and itx.func.attr in ("items", "values", "keys"):
            itx = itx.func.value
        rp_it = _root_path(itx) if isinstance(itx, (ast.Name, ast.Attribute, ast.Subscript)) else None
        if rp_it is not None and (any(rp_it[: len(q)] == q or q[: len(rp_it)] == rp_it for q in paths) or (len(rp_it) == 1 and rp_it[0] in names)):
            if not getattr(ctl, "tracks_current", False):
                raise Unsupported(f"loop {k} (line {engine.line(stmt)}) modifies the container it iterates")
    names |= set(ctl.hidden())
    names |= set(spec.ghosts)
    if isinstance(stmt, ast.For):
        tnames = set()
        for n in ast.walk(stmt.target):
            if isinstance(n, ast.Name):
                tnames.add(n.id)
        names |= tnames
    s1 = st.clone()
    havoc_modified(engine, s1, stmt, names, paths)
    ctl.rehavoc(s1, stmt)
    for f in ctl.head_facts(s1):
        s1.assume(f)
    ctl.bind_head(s1)
    for inv in spec.inv:
        s1.assume(engine.eval_spec(s1, inv))
    outs = []
    c = ctl.cond(s1)
    # exit path
    s_exit = s1.clone()
    s_exit.assume(z3.Not(c))
    if engine.feasible(s_exit):
        ctl.on_exit(s_exit)
        if stmt.orelse:
            outs.extend(engine.exec_block(s_exit, stmt.orelse))
        else:
            outs.append((s_exit, "normal"))
    # iteration path
    s_it = s1.clone()
    s_it.assume(c)
    if engine.feasible(s_it):
        iter_old = (dict(s_it.vars), s_it.heap.plain())
        ctl.begin(s_it)
        for s2, oc in exec_body_with_cuts(engine, s_it, stmt, spec, k):
            if oc in ("normal", "continue"):
                ctl.end(s2)
                ctl.bind_head(s2)
                s2.iter_old = iter_old
                for g, (_ginit, gstep) in spec.ghosts.items():
                    s2.vars[g] = engine.box(s2, engine.unbox_value(s2, engine.eval_spec_value(s2, gstep)))
                # iteration contracts first: each is assumed once proved, so
                # they also serve as stepping stones for invariant preservation
                for j, cl in enumerate(spec.step):
                    g = engine.eval_spec(s2, cl)
                    engine.oblige(s2, g, f"loop {k} iteration contract {j}: {cl}", "loop-step", stmt)
                for j, inv in enumerate(spec.inv):
                    g = engine.eval_spec(s2, inv)
                    engine.oblige(s2, g, f"loop {k} invariant {j} preserved: {inv}", "inv-preserve", stmt)
            elif oc == "break":
                ctl.on_exit(s2)
                outs.append((s2, "normal"))
            else:
                outs.append((s2, oc))
    return outs


def exec_body_with_cuts(engine, st, stmt, spec, k):
    if not spec.cuts:
        return engine.exec_block(st, stmt.body)
    states = [st]
    outs = []
    for si, sub in enumerate(stmt.body):
        nxt = []
        for s in states:
            for j, fact in enumerate(spec.cuts.get(si, ())):
                g = engine.eval_spec(s, fact)
                engine.oblige(s, g, f"loop {k} cut before statement {si}, fact {j}: {fact}", "cut", sub)
            for s2, oc in engine.exec_stmt(s, sub):
                if oc == "normal":
                    nxt.append(s2)
                else:
                    outs.append((s2, oc))
        states = nxt
    outs.extend((s, "normal") for s in states)
    return outs


class WhileCtl(LoopCtl):
    def __init__(self, engine, stmt):
        self.engine, self.stmt = engine, stmt

    def bind_head(self, st):
        pass

    def rehavoc(self, st, stmt):
        pass

    def on_exit(self, st):
        pass

    def cond(self, st):
        return self.engine.truth(st, self.engine.eval(st, self.stmt.test))

    def begin(self, st):
        # inside the body the loop test holds: Optional locals tested `is not None` are their value
        self.engine.narrow_names(st, self.stmt.test, True)


def exec_while(engine, st, stmt):
    return run_loop(engine, st, stmt, WhileCtl(engine, stmt))


# ----------------------------------------------------------- for: iterables
class PosIter:
    """Positional iterable: length + element function."""

    def __init__(self, length, elem):
        self.length, self.elem = length, elem


class SetIter:
    def __init__(self, dom, elem):
        self.dom, self.elem = dom, elem


class Unroll:
    def __init__(self, values):
        self.values = values


def describe_iter(engine, st, node):
    """Classify the iterable expression of a for loop / comprehension."""
    if isinstance(node, (ast.Tuple, ast.List)) and node.elts and all(isinstance(e, ast.Constant) and isinstance(e.value, str) for e in node.elts):
        # for k in ("a", "b", ...): a fixed tuple of string constants
        return Unroll([PyConst(e.value) for e in node.elts]), None
    if isinstance(node, ast.Call) and isinstance(node.func, ast.Name):
        fn = node.func.id
        if fn == "range":
            args = [engine.num(engine.eval(st, a)) for a in node.args]
            if len(args) == 1:
                lo, hi, step = z3.IntVal(0), args[0], 1
            elif len(args) == 2:
                lo, hi, step = args[0], args[1], 1
            else:
                lo, hi = args[0], args[1]
                s = z3.simplify(args[2])
                if not z3.is_int_value(s) or s.as_long() == 0:
                    raise Unsupported("range with symbolic step")
                step = s.as_long()
            if step > 0:
                n = z3.If(hi > lo, (hi - lo + (step - 1)) / step, 0)
            else:
                n = z3.If(lo > hi, (lo - hi + (-step - 1)) / (-step), 0)
            n = z3.simplify(n)
            return PosIter(n, lambda p: V(Int, [lo + p * step])), ("range", lo, hi, step)
        if fn == "enumerate" and len(node.args) == 1:
            it, _ = describe_iter(engine, st, node.args[0])
            if isinstance(it, PosIter):
                return PosIter(it.length, lambda p: Ty.mk_tuple([V(Int, [p]), engine.unbox_value(st, it.elem(p))])), None
            if isinstance(it, Unroll):
                return Unroll([Ty.mk_tuple([Ty.mk_int(i), engine.unbox_value(st, v)]) for i, v in enumerate(it.values)]), None
            raise Unsupported("enumerate over unordered iterable")
        if fn == "zip":
            its = [describe_iter(engine, st, a)[0] for a in node.args]
            if all(isinstance(i, PosIter) for i in its):
                n = its[0].length
                for i in its[1:]:
                    n = z3.If(i.length < n, i.length, n)
                return PosIter(z3.simplify(n), lambda p: Ty.mk_tuple([engine.unbox_value(st, i.elem(p)) for i in its])), None
            raise Unsupported("zip over unordered iterables")
        if fn == "map" and len(node.args) == 2 and isinstance(node.args[0], (ast.Name, ast.Attribute)):
            # map(f, xs) over an ordered iterable: element p is f(xs[p]) (f must be pure: a contract or external decides)
            it, _ = describe_iter(engine, st, node.args[0 + 1])
            if isinstance(it, PosIter):
                fexpr = node.args[0]

                def mapped(p, it=it, fexpr=fexpr):
                    tmp = st.clone()
                    tmp.vars["__map_arg"] = engine.box(tmp, engine.unbox_value(tmp, it.elem(p))) if hasattr(engine, "box") else it.elem(p)
                    call = ast.Call(func=fexpr, args=[ast.Name(id="__map_arg", ctx=ast.Load())], keywords=[])
                    ast.copy_location(call, node)
                    ast.fix_missing_locations(call)
                    return engine.unbox_value(tmp, engine.eval(tmp, call))

                return PosIter(it.length, mapped), None
            raise Unsupported("map over unordered iterable")
        if fn == "reversed" and len(node.args) == 1:
            it, _ = describe_iter(engine, st, node.args[0])
            if isinstance(it, PosIter):
                return PosIter(it.length, lambda p: it.elem(it.length - 1 - p)), None
            if isinstance(it, Unroll):
                return Unroll(list(reversed(it.values))), None
            raise Unsupported("reversed of unordered iterable")
        if fn in ("tuple", "list", "sorted") and len(node.args) == 1 and fn != "sorted":
            return describe_iter(engine, st, node.args[0])
    if isinstance(node, ast.Call) and isinstance(node.func, ast.Attribute) and node.func.attr in ("items", "keys", "values") and not node.args:
        base = engine.deref(st, engine.eval(st, node.func.value))
        return describe_container(engine, st, base, node.func.attr), None
    val = engine.eval(st, node)
    base = engine.deref(st, val)
    return describe_container(engine, st, base, "iter"), None


def describe_container(engine, st, base, how):
    if isinstance(base, PyConst):
        if isinstance(base.val, (tuple, list)):
            vals = []
            for x in base.val:
                if isinstance(x, bool):
                    vals.append(Ty.mk_bool(x))
                elif isinstance(x, int):
                    vals.append(Ty.mk_int(x))
                else:
                    vals.append(PyConst(x))
            return Unroll(vals)
        raise Unsupported("iteration over python constant")
    if not isinstance(base, V):
        raise Unsupported("iteration over object")
    t = base.t
    if isinstance(t, Ty.Tuple):
        return Unroll(Ty.split(t, base.c))
    if isinstance(t, Ty.List):
        ln = z3.simplify(base.c[0])
        if z3.is_int_value(ln) and ln.as_long() <= 4:
            return Unroll([engine.elem(base, z3.IntVal(p)) for p in range(ln.as_long())])
        pi = PosIter(base.c[0], lambda p: engine.elem(base, p))
        pi.base = base
        return pi
    if isinstance(t, Ty.ODict):
        n = len(t.keys_t.sorts())
        keys = V(t.keys_t, base.c[:n])
        mp = V(t.map_t, base.c[n:])
        if how in ("iter", "keys"):
            return PosIter(keys.c[0], lambda p: engine.elem(keys, p))
        if how == "values":
            return PosIter(keys.c[0], lambda p: engine.mapval(mp, keys.c[1][p]))
        return PosIter(keys.c[0], lambda p: Ty.mk_tuple([engine.elem(keys, p), engine.mapval(mp, keys.c[1][p])]))
    if isinstance(t, Ty.Map):
        if how in ("iter", "keys"):
            return SetIter(base.c[0], lambda k: V(t.k, [k]))
        if how == "values":
            return SetIter(base.c[0], lambda k: engine.mapval(base, k))
        return SetIter(base.c[0], lambda k: Ty.mk_tuple([V(t.k, [k]), engine.mapval(base, k)]))
    if isinstance(t, Ty.Set):
        return SetIter(base.c[0], lambda k: V(t.k, [k]))
    raise Unsupported(f"iteration over {t}")


class PosCtl(LoopCtl):
    def __init__(self, engine, stmt, it, k):
        self.engine, self.stmt, self.it = engine, stmt, it
        self.pname = f"_p{k}"

    def hidden(self):
        return [self.pname]

    def init(self, st):
        st.vars[self.pname] = Ty.mk_int(0)
        if self.spec.pos:
            st.vars[self.spec.pos] = st.vars[self.pname]

    def rehavoc(self, st, stmt):
        if self.spec.pos:
            st.vars[self.spec.pos] = st.vars[self.pname]

    def head_facts(self, st):
        p = st.vars[self.pname].term
        return [p >= 0, p <= self.it.length]

    def bind_head(self, st):
        # the loop target is visible in invariants as "the next element"
        p = st.vars[self.pname].term
        if self.spec.pos:
            st.vars[self.spec.pos] = st.vars[self.pname]
        try:
            self.engine.assign_target(st, self.stmt.target, self.engine.box(st, self.it.elem(p)), self.stmt)
        except Unsupported:
            raise

    def cond(self, st):
        return st.vars[self.pname].term < self.it.length

    def begin(self, st):
        p = st.vars[self.pname].term
        self.engine.assign_target(st, self.stmt.target, self.engine.box(st, self.it.elem(p)), self.stmt)

    def end(self, st):
        st.vars[self.pname] = V(Int, [st.vars[self.pname].term + 1])

    def on_exit(self, st):
        pass


class SetCtl(LoopCtl):
    """for k in <dict/set>: every key once, arbitrary order.  ``seen`` is the
    ghost set of keys already visited."""

    def __init__(self, engine, stmt, it, k):
        self.engine, self.stmt, self.it = engine, stmt, it
        self.sname = f"_seen{k}"
        self.kname = f"_k{k}"

    def hidden(self):
        return [self.sname, self.kname]

    def init(self, st):
        st.vars[self.sname] = V(Ty.Set(Ty.Key), [z3.K(Ty.IntS, z3.BoolVal(False))])
        st.vars[self.kname] = Ty.mk_int(0)
        self._alias(st)

    def _alias(self, st):
        if self.spec.seen:
            st.vars[self.spec.seen] = st.vars[self.sname]

    def rehavoc(self, st, stmt):
        self._alias(st)

    def head_facts(self, st):
        seen = st.vars[self.sname].c[0]
        return [z3.SetDifference(seen, self.it.dom) == z3.EmptySet(Ty.IntS)]

    def bind_head(self, st):
        self._alias(st)

    def cond(self, st):
        seen = st.vars[self.sname].c[0]
        return seen != self.it.dom

    tracks_current = True

    def begin(self, st):
        seen = st.vars[self.sname].c[0]
        k = self.engine.fresh(st, "pick", self.stmt, Ty.IntS)
        st.assume(self.it.dom[k])
        st.assume(z3.Not(seen[k]))
        st.vars[self.kname] = V(Int, [k])
        it_now = self.it
        itx = self.stmt.iter
        via = None
        if isinstance(itx, ast.Call) and isinstance(itx.func, ast.Attribute) and itx.func.attr in ("items", "values", "keys") and not itx.args:
            via, itx = itx.func.attr, itx.func.value
        if isinstance(itx, (ast.Name, ast.Attribute)):
            # the container may have been changed by earlier iterations: read the element from its
            # current content; its key set must still be the one the iteration started with
            now, _ = describe_iter(self.engine, st, self.stmt.iter)
            if isinstance(now, SetIter):
                if not now.dom.eq(self.it.dom):
                    self.engine.oblige(st, now.dom == self.it.dom, f"the dict iterated at line {self.engine.line(self.stmt)} keeps its key set during the loop", "safety", self.stmt)
                it_now = now
        elem = self.engine.box(st, it_now.elem(k))
        if via in ("items", "values"):
            # the value bound by the loop IS the dict's entry (mutations through it reach the dict)
            tgt = self.stmt.target
            if via == "items" and isinstance(tgt, ast.Tuple) and len(tgt.elts) == 2 and isinstance(tgt.elts[1], ast.Name):
                ev = self.engine.deref(st, elem)
                parts = Ty.split(ev.t, ev.c)
                kv, vv = parts[0], parts[1]
                if isinstance(vv, V) and vv.t.mutable:
                    vref = self.engine.view_of_entry(st, itx, k, vv)
                    self.engine.assign_target(st, tgt.elts[0], self.engine.box(st, kv), self.stmt)
                    st.vars[tgt.elts[1].id] = vref
                    return
            elif via == "values" and isinstance(tgt, ast.Name):
                ev = self.engine.deref(st, elem)
                if isinstance(ev, V) and ev.t.mutable:
                    st.vars[tgt.id] = self.engine.view_of_entry(st, itx, k, ev)
                    return
        self.engine.assign_target(st, self.stmt.target, elem, self.stmt)

    def end(self, st):
        seen = st.vars[self.sname].c[0]
        k = st.vars[self.kname].term
        st.vars[self.sname] = V(Ty.Set(Ty.Key), [z3.Store(seen, k, True)])
        self._alias(st)

    def on_exit(self, st):
        pass


def exec_for(engine, st, stmt):
    it, _ = describe_iter(engine, st, stmt.iter)
    if isinstance(it, Unroll):
        states = [st]
        outs = []
        for v in it.values:
            nxt = []
            for s in states:
                s = s.clone()
                engine.assign_target(s, stmt.target, engine.box(s, v) if isinstance(v, V) else v, stmt)
                for s2, oc in engine.exec_block(s, stmt.body):
                    if oc in ("normal", "continue"):
                        nxt.append(s2)
                    elif oc == "break":
                        outs.append((s2, "normal"))
                    else:
                        outs.append((s2, oc))
            states = nxt
        for s in states:
            if stmt.orelse:
                outs.extend(engine.exec_block(s, stmt.orelse))
            else:
                outs.append((s, "normal"))
        return outs
    k = loop_ordinal(engine, stmt)
    if isinstance(it, PosIter):
        return run_loop(engine, st, stmt, PosCtl(engine, stmt, it, k))
    return run_loop(engine, st, stmt, SetCtl(engine, stmt, it, k))
