"""CLI: verify contracts of a module: python -m vt.pyvc.run vt.contracts.core_slicing [name]"""
import importlib, sys, time
from .contract import Registry
from .verify import verify_function

def main():
    mods = sys.argv[1].split(",")
    pos = [a for a in sys.argv[2:] if not a.startswith("-")]
    only = pos[0] if pos else None
    reg = Registry()
    cs = []
    for m in mods:
        mod = importlib.import_module(m)
        for c in mod.CONTRACTS:
            reg.add(c); cs.append(c)
    bad = 0
    for c in cs:
        if only and only not in c.target: continue
        r = verify_function(c, reg)
        n = len(r.obligations); d = sum(o["status"] == "discharged" for o in r.obligations)
        print(f"== {c.target}: {r.status} {r.why[:300]} obligations {d}/{n} canary_refuted={r.canary} pre={r.pre_sat} wall={r.wall:.2f}s")
        for o in r.obligations:
            if o["status"] != "discharged" or "-v" in sys.argv:
                print(f"   [{o['status']:10s}] {o['backend']:6s} {o['time_s']:.2f}s {o['kind']:12s} {o['label'][:150]}")
                if o["status"] == "refuted" and o.get("detail") and "-m" in sys.argv:
                    for k, v in list(o["detail"].items())[:30]: print("        ", k, "=", v)
        for x in r.dropped: print("   dropped:", x)
        bad += (r.status != "ok") or d != n
    sys.exit(1 if bad else 0)

if __name__ == "__main__":
    main()
