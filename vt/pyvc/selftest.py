"""Engine self-tests (thorough tier): for every proved function a fixed list
of deliberately broken bodies, applied to a scratch copy of the package, must
make a named obligation fail (or the run-time monitor of the same contract
fire).  A mutant that still verifies means the contract or the encoder is too
weak/unsound -> reported as a checker problem (exit 3), never as a finding."""

from __future__ import annotations

import importlib
import json
import os
import shutil
import subprocess
import sys
import tempfile

from ..common import ROOT, pmap

MUTANTS = [
    # (module list, filter, file, old, new)
    ("vt.contracts.core_slicing", "get_slice_strides", "cotengra/core.py", "strides[i] = strides[i + 1] * slice_infos[i + 1].size", "strides[i] = strides[i + 1] * slice_infos[i].size"),
    ("vt.contracts.core_slicing", "slice_key", "cotengra/core.py", "                i %= stride", "                i = i % (stride + 1)"),
    ("vt.contracts.core_slicing", "slice_key", "cotengra/core.py", "                key[ind] = i // stride", "                key[ind] = i % stride"),
    ("vt.contracts.utils_maxcounter", "discard", "cotengra/utils.py", "        if cnt <= 1:", "        if cnt < 1:"),
    ("vt.contracts.utils_maxcounter", "copy", "cotengra/utils.py", "new._c = self._c.copy()", "new._c = self._c"),
    ("vt.contracts.utils_maxcounter", "add", "cotengra/utils.py", "self._max_element = max(self._max_element, x)", "self._max_element = x"),
    ("vt.contracts.legs_rules", "compute_contracted_info", "cotengra/pathfinders/path_simulated_annealing.py", "        if ix_count < appearances[ix]:\n            # index appears on output", "        if ix_count <= appearances[ix]:\n            # index appears on output"),
    ("vt.contracts.legs_rules", "compute_contracted_info", "cotengra/pathfinders/path_simulated_annealing.py", "        if ix not in legsa:\n            d = size_dict[ix]", "        if True:\n            d = size_dict[ix]"),
    ("vt.contracts.legs_rules", "legs_union", "cotengra/core.py", "new_legs[ix] = new_legs.get(ix, 0) + ix_count", "new_legs[ix] = new_legs.get(ix, 1) + ix_count"),
    # C01 Contractor.__call__: operands swapped, result stored under the wrong node, transpose applied when it must not be
    ("vt.contracts.contractor_protocol", "Contractor.__call__", "cotengra/contract.py", "p_array = _tensordot(l_array, r_array, arg)", "p_array = _tensordot(r_array, l_array, arg)"),
    ("vt.contracts.contractor_protocol", "Contractor.__call__", "cotengra/contract.py", "            temps[p] = p_array", "            temps[l] = p_array"),
    ("vt.contracts.contractor_protocol", "Contractor.__call__", "cotengra/contract.py", "                if perm:", "                if not perm:"),
    ("vt.contracts.contractor_protocol", "Contractor.__call__", "cotengra/contract.py", "            l_array = temps.pop(l)", "            l_array = temps.pop(r)"),
    # C19 exponent bookkeeping in Contractor.__call__: sign of the exponent update, mantissa not divided
    ("vt.contracts.contractor_protocol", "Contractor.__call__", "cotengra/contract.py", 'exponent = exponent + do("log10", factor, like=backend)', 'exponent = exponent - do("log10", factor, like=backend)'),
    ("vt.contracts.contractor_protocol", "Contractor.__call__", "cotengra/contract.py", "p_array = p_array / factor", "p_array = p_array"),
    # C01 extract_contractions: children swapped in the schedule, recipe of another node
    ("vt.contracts.extract_schedule", "extract_contractions", "cotengra/contract.py", "(p, l, r, False, tree.get_einsum_eq(p), None)", "(p, r, l, False, tree.get_einsum_eq(p), None)"),
    ("vt.contracts.extract_schedule", "extract_contractions", "cotengra/contract.py", "(p, l, r, False, tree.get_einsum_eq(p), None)", "(p, l, r, False, tree.get_einsum_eq(l), None)"),
    # C05 processor bookkeeping: completion loop stops early, a step recorded wrongly, an id reused, a node not removed
    ("vt.contracts.processor_nodes", "optimize_remaining_by_size", "cotengra/pathfinders/path_basic.py", "        while len(nodes_sizes) > 1:", "        while len(nodes_sizes) > 2:"),
    ("vt.contracts.processor_nodes", "contract_nodes", "cotengra/pathfinders/path_basic.py", "        self.ssa_path.append((i, j))", "        self.ssa_path.append((i, i))"),
    ("vt.contracts.processor_nodes", "add_node", "cotengra/pathfinders/path_basic.py", "        self.ssa += 1\n        self.nodes[i] = legs", "        self.nodes[i] = legs"),
    ("vt.contracts.processor_nodes", "pop_node", "cotengra/pathfinders/path_basic.py", "        legs = self.nodes.pop(i)", "        legs = self.nodes[i]"),
    # C06 slice_arrays: the section is taken from another input
    ("vt.contracts.slice_arrays", "slice_arrays", "cotengra/core.py", "            temp_arrays[c] = temp_arrays[c][selector]", "            temp_arrays[c] = temp_arrays[0][selector]"),
    # C05 greedy search phase: a dead node contracted, a candidate joining a node with itself
    ("vt.contracts.processor_nodes", "optimize_greedy", "cotengra/pathfinders/path_basic.py", "            if (i not in self.nodes) or (j not in self.nodes):", "            if (i not in self.nodes) and (j not in self.nodes):"),
    ("vt.contracts.processor_nodes", "optimize_greedy", "cotengra/pathfinders/path_basic.py", "                contractions[c] = (k, l, msize, mlegs)", "                contractions[c] = (k, k, msize, mlegs)"),
    ("vt.contracts.processor_nodes", "neighbors", "cotengra/pathfinders/path_basic.py", "                if j != i:\n                    yield j", "                if True:\n                    yield j"),
    ("vt.contracts.processor_nodes", "simplify_scalars", "cotengra/pathfinders/path_basic.py", "                scalars[p + 1] = k", "                pass"),
    # C07 SliceFinder.trial: a forbidden index accepted, a slicing cached under the wrong set of indices
    ("vt.contracts.slicer_costs", "SliceFinder.trial", "cotengra/slicer.py", "            if ix in self.forbidden:", "            if False:"),
    ("vt.contracts.slicer_costs", "SliceFinder.trial", "cotengra/slicer.py", "                next_cost = self.costs[next_ix_sl] = cost.remove(ix)", "                next_cost = self.costs[ix_sl] = cost.remove(ix)"),
    ("vt.contracts.processor_nodes", "remove_ix", "cotengra/pathfinders/path_basic.py", "(jx, jx_count) for jx, jx_count in self.nodes[node] if jx != ix", "(jx, jx_count) for jx, jx_count in self.nodes[node] if jx < ix"),
    ("vt.contracts.processor_nodes", "simplify_batch", "cotengra/pathfinders/path_basic.py", "            self.remove_ix(ix)", "            self.remove_ix(ix_to_remove[0])"),
    ("vt.contracts.processor_nodes", "ContractionProcessor.copy", "cotengra/pathfinders/path_basic.py", "        new.ssa = self.ssa", "        new.ssa = len(new.nodes)"),
    # C09 DP step: the seeded early sieve on the children's scores, a table update that can make an entry worse, a lost update
    ("vt.contracts.dp_step", "optimize_optimal_connected", "cotengra/pathfinders/path_basic.py", "                        # do sorted simultaneous iteration over ilegs and jlegs", "                        if iscore + jscore > cost_cap:\n                            continue"),
    ("vt.contracts.dp_step", "optimize_optimal_connected", "cotengra/pathfinders/path_basic.py", "if (current is None) or (new_score < current[1]):", "if True:"),
    ("vt.contracts.dp_step", "optimize_optimal_connected", "cotengra/pathfinders/path_basic.py", "if (current is None) or (new_score < current[1]):", "if (current is None):"),
    ("vt.contracts.con_cost", "compute_con_cost_flops", "cotengra/pathfinders/path_basic.py", "    return iscore + jscore + cost\n\n\ndef compute_con_cost_max", "    return iscore + cost\n\n\ndef compute_con_cost_max"),
    ("vt.contracts.con_cost", "compute_con_cost_size", "cotengra/pathfinders/path_basic.py", "        else:\n            size *= sizes[ix]\n\n    return max((iscore, jscore, size))", "        else:\n            size += sizes[ix]\n\n    return max((iscore, jscore, size))"),
    ("vt.contracts.path_convert", "linear_to_ssa", "cotengra/pathfinders/path_basic.py", "scon = tuple(ids.pop(c) for c in sorted(con, reverse=True))", "scon = tuple(ids.pop(c) for c in sorted(con))"),
    ("vt.contracts.path_convert", "ssa_to_linear", "cotengra/pathfinders/path_basic.py", "        con.sort()\n        for j in reversed(con):", "        for j in reversed(con):"),
    ("vt.contracts.core_stats,vt.contracts.utils_maxcounter", "contract_stats", "cotengra/core.py", "                node_size = self.get_size(node)\n                self._write += node_size", "                node_size = self.get_size(node)\n                self._write += 1"),
    ("vt.contracts.core_stats,vt.contracts.utils_maxcounter", "peak_size", "cotengra/core.py", "            tot_size -= self.get_size(l)\n            tot_size -= self.get_size(r)", "            tot_size -= self.get_size(l)"),
    ("vt.contracts.core_stats,vt.contracts.utils_maxcounter", "total_flops", "cotengra/core.py", "        if self._track_flops:\n            C = self.multiplicity * self._flops", "        if self._track_flops:\n            C = self._flops"),
    ("vt.contracts.compressed_tracker", "update_post_step", "cotengra/scoring.py", "        self.write += self.contracted_size", "        self.write += self.size_change"),
    ("vt.contracts.exponent", "add_maybe", "cotengra/core.py", "    e = max(xe, ye)", "    e = min(xe, ye)"),
    ("vt.contracts.exponent", "add_maybe", "cotengra/core.py", "m = xm * 10 ** (xe - e) + ym * 10 ** (ye - e)", "m = xm * 10 ** (xe - e) + ym * 10 ** (e - ye)"),
    ("vt.contracts.reusable_policy", "_maybe_run", "cotengra/reusable.py", 'if con["score"] < old_con["score"]:', 'if con["score"] > old_con["score"]:'),
    ("vt.contracts.reusable_policy", "_maybe_run", "cotengra/reusable.py", "                    # need flag that we can't use the last run\n                    should_run = False", "                    pass"),
    ("vt.contracts.diskdict_effects", "__setitem__", "cotengra/utils.py", '            with open(tmp, "wb+") as f:\n                pickle.dump(v, f)\n            os.replace(tmp, fname)', '            with open(fname, "wb+") as f:\n                pickle.dump(v, f)'),
    ("vt.contracts.slicer_costs,vt.contracts.utils_maxcounter", "remove", "cotengra/slicer.py", "            new_flops = old_flops // d", "            new_flops = old_flops // d + 1"),
    ("vt.contracts.slicer_costs,vt.contracts.utils_maxcounter", "remove", "cotengra/slicer.py", "            new_involved.discard(ix)", "            pass"),
    ("vt.contracts.processor_legs", "compute_flops", "cotengra/pathfinders/path_basic.py", "        if ix not in seen:\n            flops *= sizes[ix]\n    return flops", "        flops *= sizes[ix]\n    return flops"),
    ("vt.contracts.processor_legs", "compute_contracted", "cotengra/pathfinders/path_basic.py", "        if iix < jix:\n            # index only appears on i\n            new_legs.append((iix, ic))", "        if iix < jix:\n            # index only appears on i\n            new_legs.append((iix, ic + 1))"),
    ("vt.contracts.core_mutators,vt.contracts.utils_maxcounter", "contract_nodes_pair", "cotengra/core.py", "        if (legs is not None) and (len(parent) != self.N):", "        if legs is not None:"),
    ("vt.contracts.core_mutators,vt.contracts.utils_maxcounter", "_remove_node", "cotengra/core.py", "            if self._track_flops:\n                self._flops -= self.get_flops(node)", "            if self._track_flops:\n                self._flops -= 0"),
    ("vt.contracts.core_mutators,vt.contracts.utils_maxcounter", "_update_tracked", "cotengra/core.py", "        if self._track_write:\n            self._write += self.get_size(node)", "        if self._track_write:\n            self._write += self.get_flops(node)"),
    ("vt.contracts.misc_small", "get_symbol", "cotengra/utils.py", "    if i >= 55296:", "    if i > 55296:"),
    ("vt.contracts.hyper_score", "ComputeScore", "cotengra/hyperoptimizers/hyper.py", '        except BadTrial:\n            trial = {\n                "score": float("inf"),', '        except BadTrial:\n            trial = {\n                "score": 0.0,'),
    ("vt.contracts.hyper_score", "_maybe_report", "cotengra/hyperoptimizers/hyper.py", '        self.costs_flops.append(trial["flops"])', '        self.costs_flops.append(trial["write"])'),
    ("vt.contracts.einsum_eq", "get_einsum_eq", "cotengra/core.py", "            for i, ix in enumerate(unique(itertools.chain(l_inds, r_inds)))\n        }", "            for i, ix in enumerate(unique(itertools.chain(l_inds, r_inds)))\n            if not ix.isascii()\n        }"),
    ("vt.contracts.einsum_eq", "get_einsum_eq", "cotengra/core.py", "enumerate(unique(itertools.chain(l_inds, r_inds)))", "enumerate(unique(l_inds))"),
    ("vt.contracts.einsum_eq", "get_einsum_eq", "cotengra/core.py", "ord(ix): get_symbol(i)", "ord(ix): get_symbol(i % 52)"),
    ("vt.contracts.hyper_score", "SlicedTrialFn", "cotengra/hyperoptimizers/hyper.py", "        tree.slice_(**self.opts)\n        trial.update(tree.contract_stats())", "        trial.update(tree.contract_stats())\n        tree.slice_(**self.opts)"),
    ("vt.contracts.reusable_policy", "update_from_tree", "cotengra/reusable.py", '                if new_con["score"] < old_con["score"]:', '                if new_con["score"] > old_con["score"]:'),
    ("vt.contracts.core_slice", "ContractionTree.slice", "cotengra/core.py", "        sf = SliceFinder(\n            tree,", "        sf = SliceFinder(\n            self,"),
    ("vt.contracts.core_remove_ind,vt.contracts.legs_rules,vt.contracts.utils_maxcounter", "remove_ind", "cotengra/core.py", "            si = SliceInfo(ind not in tree.output, ind, 1, project)", "            si = SliceInfo(ind not in tree.output, ind, d, project)"),
    ("vt.contracts.core_restore_ind,vt.contracts.core_reconfigure,vt.contracts.core_remove_ind,vt.contracts.legs_rules,vt.contracts.utils_maxcounter", "restore_ind", "cotengra/core.py", "        tree.multiplicity //= si.size", "        tree.multiplicity //= tree.size_dict[ind]"),
    ("vt.contracts.core_restore_ind,vt.contracts.core_reconfigure,vt.contracts.core_remove_ind,vt.contracts.legs_rules,vt.contracts.utils_maxcounter", "restore_ind", "cotengra/core.py", "        si = tree.sliced_inds.pop(ind)", "        si = tree.sliced_inds.pop(ind)\n        tree.sliced_inds.clear()"),
    ("vt.contracts.core_restore_ind,vt.contracts.core_reconfigure,vt.contracts.core_remove_ind,vt.contracts.legs_rules,vt.contracts.utils_maxcounter", "restore_ind", "cotengra/core.py", "        tree.already_optimized.clear()\n        tree.reset_contraction_indices()\n\n        return tree\n\n    restore_ind_", "        tree.already_optimized.clear()\n\n        return tree\n\n    restore_ind_"),
    ("vt.contracts.core_reconfigure,vt.contracts.core_remove_ind,vt.contracts.legs_rules,vt.contracts.utils_maxcounter", "subtree_reconfigure", "cotengra/core.py", "            subtree_rng = get_rng(seed) if rng is None else rng", "            subtree_rng = rng"),
    ("vt.contracts.hypergraph_ops", "HyperGraph.compress", "cotengra/hypergraph.py", "self.size_dict[e_keep] = min(new_size, chi)", "self.size_dict[e_keep] = new_size"),
    ("vt.contracts.hypergraph_ops", "neighborhood_compress_cost", "cotengra/hypergraph.py", "            if da > chi:", "            if da >= chi:"),
    ("vt.contracts.slicer_costs,vt.contracts.utils_maxcounter", "SliceFinder.best", "cotengra/slicer.py", "(not size_specified or (x[1].size <= target_size))", "(not size_specified or (x[1].size >= target_size))"),
    ("vt.contracts.einsum_front", "find_output_from_inputs", "cotengra/utils.py", "                once.pop(ind, None)", "                pass"),
    ("vt.contracts.core_remove_ind,vt.contracts.legs_rules,vt.contracts.utils_maxcounter", "remove_ind", "cotengra/core.py", "                new_flops = old_flops // d\n                node_info[\"flops\"] = new_flops", "                new_flops = old_flops\n                node_info[\"flops\"] = new_flops"),
    ("vt.contracts.core_remove_ind,vt.contracts.legs_rules,vt.contracts.utils_maxcounter", "remove_ind", "cotengra/core.py", "                    tree.info[node].pop(k, None)\n                modified.append(node)", "                    tree.info[node].pop(k, None)\n                pass"),
    ("vt.contracts.hypergraph_ops", "HyperGraph.contract", "cotengra/hypergraph.py", "            if (ind in self.edges) or (ind in self.output)", "            if (ind in self.edges) and (ind in self.output)"),
    ("vt.contracts.hypergraph_ops", "remove_node", "cotengra/hypergraph.py", "            if not e_nodes:\n                del self.edges[e]", "            if not e_nodes:\n                pass"),
    ("vt.contracts.hypergraph_ops", "add_node", "cotengra/hypergraph.py", "                self.edges[e] += (node,)", "                self.edges[e] = (node,)"),
    ("vt.contracts.traversal", "_traverse_ordered", "cotengra/core.py", "                            ci = bisect(scores[:i], score)", "                            ci = bisect(scores[: i + 1], score)"),
    ("vt.contracts.traversal", "_traverse_dfs", "cotengra/core.py", "            if (l in ready) and (r in ready):", "            if (l in ready) or (r in ready):"),
    ("vt.contracts.core_inds", "get_inds", "cotengra/core.py", "            unique(filter(legs.__contains__, itertools.chain(l_inds, r_inds)))", "            filter(legs.__contains__, itertools.chain(l_inds, r_inds))"),
    ("vt.contracts.core_inds", "get_inds", "cotengra/core.py", "            unique(filter(legs.__contains__, itertools.chain(l_inds, r_inds)))", "            unique(itertools.chain(l_inds, r_inds))"),
    ("vt.contracts.core_legs,vt.contracts.legs_rules", "compute_leaf_legs", "cotengra/core.py", "            legs[ix] = legs.get(ix, 0) + 1", "            legs[ix] = legs.get(ix, 1) + 1"),
    ("vt.contracts.core_legs,vt.contracts.legs_rules", "compute_leaf_legs", "cotengra/core.py", "            self.preprocessing[i] = eq", "            pass"),
    ("vt.contracts.core_legs,vt.contracts.legs_rules", "get_legs", "cotengra/core.py", "            if ix_count < self.appearances[ix]\n        }", "            if ix_count <= self.appearances[ix]\n        }"),
    ("vt.contracts.core_legs,vt.contracts.legs_rules", "get_legs", "cotengra/core.py", "return {ix: 0 for ix in self.output if ix not in self.sliced_inds}", "return {ix: 0 for ix in self.output}"),
    ("vt.contracts.core_legs,vt.contracts.legs_rules", "get_flops", "cotengra/core.py", "        if len(node) == 1:\n            return 0\n        involved = self.get_involved(node)", "        if len(node) == 1:\n            return 1\n        involved = self.get_involved(node)"),
    ("vt.contracts.slicer_costs,vt.contracts.utils_maxcounter", "remove", "cotengra/slicer.py", "            cost._flops += new_flops - old_flops", "            cost._flops += new_flops"),
    ("vt.contracts.slicer_costs,vt.contracts.utils_maxcounter", "remove", "cotengra/slicer.py", "                cost._sizes.add(new_size)\n", "                cost._sizes.add(old_size)\n"),
    ("vt.contracts.slicer_costs,vt.contracts.utils_maxcounter", "__init__", "cotengra/slicer.py", "self._flops += c[IDX_FLOPS]", "self._flops += c[IDX_SIZE]"),
    ("vt.contracts.slicer_costs,vt.contracts.utils_maxcounter", "__init__", "cotengra/slicer.py", "self._where[ix].add(i)", "self._where[ix].add(i + 1)"),
    ("vt.contracts.hyper_score", "_search", "cotengra/hyperoptimizers/hyper.py", 'if trial["score"] < self.best["score"]:', 'if trial["score"] > self.best["score"]:'),
    ("vt.contracts.hyper_score", "_get_and_report", "cotengra/hyperoptimizers/hyper.py", "                    del self._futures[i]\n", "                    del self._futures[0]\n"),
    ("vt.contracts.hyper_score", "_get_and_report", "cotengra/hyperoptimizers/hyper.py", "                    self._maybe_report_result(setting, trial)\n                    return trial", "                    return trial"),
    ("vt.contracts.tensordot_recipe", "get_tensordot_axes", "cotengra/core.py", "            if j != -1:\n                l_axes.append(i)", "            if j > 0:\n                l_axes.append(i)"),
    ("vt.contracts.tensordot_recipe", "get_tensordot_axes", "cotengra/core.py", "                l_axes.append(i)\n                r_axes.append(j)", "                l_axes.append(j)\n                r_axes.append(j)"),
    ("vt.contracts.tensordot_recipe", "get_tensordot_perm", "cotengra/core.py", "return tuple(map(td_inds.find, p_inds))", "return tuple(map(p_inds.find, td_inds))"),
    ("vt.contracts.tensordot_recipe", "get_tensordot_perm", "cotengra/core.py", 'key=f"{l_inds}{r_inds}".find', 'key=f"{r_inds}{l_inds}".find'),
]

_CHILD = r'''
import sys, json, random
sys.path.insert(0, {root!r})
from vt import t1
from vt.pyvc import verify as VF
mods = {mods!r}.split(",")
reg, cs = t1.load_contracts(mods)
out = {{"verified": [], "failed": []}}
for c in cs:
    if {filt!r} not in c.key:
        continue
    r = VF.verify_function(c, reg, cli=False)
    bad = [o["label"] for o in r.obligations if o["status"] != "discharged"]
    mon = None
    if r.status == "ok" and not bad:  # the proof went through: the run-time monitor has the last word
        try:
            mon = t1.monitor(c, 150, random.Random(11))[1]
        except Exception as e:
            mon = {{"clause": "monitor raised " + type(e).__name__}}
    if r.status != "ok" or bad or mon is not None:
        out["failed"].append({{"contract": c.key, "status": r.status, "obligations": bad[:3], "monitor": (mon or {{}}).get("clause")}})
    else:
        out["verified"].append(c.key)
print("SELFTEST " + json.dumps(out))
'''


def _run_one(m):
    mods, filt, f, old, new = m
    scr = tempfile.mkdtemp(prefix="selftest.")
    try:
        shutil.copytree(os.path.join(os.environ.get("VERIF_REPO", "/repo"), "cotengra"), os.path.join(scr, "cotengra"))
        p = os.path.join(scr, f)
        s = open(p).read()
        if old not in s:
            return {"mutant": [filt, old[:60]], "result": "pattern-missing"}
        open(p, "w").write(s.replace(old, new, 1))
        env = dict(os.environ, PYTHONPATH=scr, PYTHONDONTWRITEBYTECODE="1")
        code = _CHILD.format(root=ROOT, mods=mods, filt=filt)
        r = subprocess.run([sys.executable, "-c", code], env=env, capture_output=True, text=True, timeout=900)
        line = [l for l in r.stdout.splitlines() if l.startswith("SELFTEST ")]
        if not line:
            if "out_of_memory" in r.stderr or "out of memory" in r.stderr:
                # the solver hit its memory cap on the broken body: not verified (the check itself reports UNDECIDED there)
                return {"mutant": [filt, old[:60]], "result": "caught", "detail": [{"status": "solver memory cap reached: undecided, not verified"}]}
            return {"mutant": [filt, old[:60]], "result": "crash", "stderr": r.stderr[-400:]}
        out = json.loads(line[0][9:])
        return {"mutant": [filt, old[:60]], "result": "caught" if out["failed"] else "SURVIVED", "detail": out["failed"][:1]}
    finally:
        shutil.rmtree(scr, ignore_errors=True)


def run(rep, only_modules=None):
    """Run the mutants whose contract module serves this property."""
    todo = [m for m in MUTANTS if only_modules is None or any(x in only_modules for x in m[0].split(","))]
    caught = 0
    results = []
    for st, r in pmap(_run_one, todo, chunk=1):
        if st != "ok":
            rep.crash(f"engine self-test crashed: {r[:300]}")
            continue
        results.append(r)
        if r["result"] == "caught":
            caught += 1
        elif r["result"] == "SURVIVED":
            rep.crash(f"engine self-test: deliberately broken body still verifies and passes its monitor: {r['mutant']}")
        elif r["result"] == "pattern-missing":
            rep.extra.setdefault("selftest_patterns_missing", []).append(r["mutant"])
        else:
            rep.crash(f"engine self-test child failed: {r}")
    rep.extra["engine_selftest"] = {"mutants": len(todo), "caught": caught, "results": results}
    return caught, len(todo)


if __name__ == "__main__":
    from ..common import Report

    rep = Report("SELFTEST", "thorough")
    c, n = run(rep)
    print(f"engine self-test: {c}/{n} deliberately broken bodies caught")
    for r in rep.extra["engine_selftest"]["results"]:
        if r["result"] != "caught":
            print("  ", r)
    for c_ in rep.crashes:
        print("CRASH", c_[:300])
