"""Type descriptors and symbolic values for pyvc.

Every Python value in the supported subset is flattened into a fixed list of
z3 terms ("components"):

  Int/Key -> [Int]      Bool -> [Bool]     Real -> [Real]
  NoneT   -> []
  Opt(T)  -> [Bool isnone] + comps(T)
  Tuple(Ts) / Rec(fields) -> concatenation
  List(E) -> [Int len] + [Array(Int, s) for s in comps(E)]
  Map(K,V)-> [Array(Int,Bool) dom] + [Array(Int, s) for s in comps(V)]
  Set(K)  -> [Array(Int,Bool)]
  ODict(K,V) -> List(K) keys  +  Map(K,V)         (insertion order observable)

Keys (index labels, strings) are z3 Ints: only equality (and, where the code
sorts them, the integer order) is used.
"""

from __future__ import annotations

import itertools

import z3

_fresh = itertools.count()


def fresh(prefix, sort):
    return z3.Const(f"{prefix}!{next(_fresh)}", sort)


IntS = z3.IntSort()
BoolS = z3.BoolSort()
RealS = z3.RealSort()


class T:
    kind = "?"
    mutable = False

    def sorts(self):
        raise NotImplementedError

    def __repr__(self):
        return self.kind


class _Int(T):
    kind = "int"

    def sorts(self):
        return [IntS]


class _Key(_Int):
    kind = "key"


class _Bool(T):
    kind = "bool"

    def sorts(self):
        return [BoolS]


class _Real(T):
    kind = "real"

    def sorts(self):
        return [RealS]


class _None(T):
    kind = "none"

    def sorts(self):
        return []


Int, Key, Bool, Real, NoneT = _Int(), _Key(), _Bool(), _Real(), _None()


class Opt(T):
    kind = "opt"

    def __init__(self, t):
        self.t = t

    def sorts(self):
        return [BoolS] + self.t.sorts()

    def __repr__(self):
        return f"opt[{self.t}]"


class Tuple(T):
    kind = "tuple"

    def __init__(self, ts):
        self.ts = list(ts)

    def sorts(self):
        return [s for t in self.ts for s in t.sorts()]

    def __repr__(self):
        return f"tuple{self.ts}"


class Rec(T):
    """Record / object with named fields. ``mutable`` records live on the heap."""

    kind = "rec"

    def __init__(self, name, fields, mutable=True):
        self.name = name
        self.fields = dict(fields)
        self.mutable = mutable

    def sorts(self):
        return [s for t in self.fields.values() for s in t.sorts()]

    def __repr__(self):
        return f"rec:{self.name}"


class List(T):
    kind = "list"
    mutable = True

    def __init__(self, e):
        self.e = e

    def sorts(self):
        return [IntS] + [z3.ArraySort(IntS, s) for s in self.e.sorts()]

    def __repr__(self):
        return f"list[{self.e}]"


class Map(T):
    kind = "map"
    mutable = True

    def __init__(self, k, v):
        self.k, self.v = k, v

    def sorts(self):
        return [z3.ArraySort(IntS, BoolS)] + [z3.ArraySort(IntS, s) for s in self.v.sorts()]

    def __repr__(self):
        return f"map[{self.k}->{self.v}]"


class Set(T):
    kind = "set"
    mutable = True

    def __init__(self, k=Key):
        self.k = k

    def sorts(self):
        return [z3.ArraySort(IntS, BoolS)]

    def __repr__(self):
        return f"set[{self.k}]"


class ODict(T):
    """dict whose insertion order is observable: keys list (distinct) + map."""

    kind = "odict"
    mutable = True

    def __init__(self, k, v):
        self.k, self.v = k, v
        self.keys_t = List(k)
        self.map_t = Map(k, v)

    def sorts(self):
        return self.keys_t.sorts() + self.map_t.sorts()

    def __repr__(self):
        return f"odict[{self.k}->{self.v}]"


class SDict(T):
    """A dict with a fixed universe of constant string keys, each optionally
    present (e.g. ContractionTree.info[node]): per field a presence flag and a
    value."""

    kind = "sdict"
    mutable = True

    def __init__(self, fields):
        self.fields = dict(fields)

    def sorts(self):
        out = []
        for t in self.fields.values():
            out.append(BoolS)
            out.extend(t.sorts())
        return out

    def __repr__(self):
        return f"sdict{list(self.fields)}"

    def offsets(self):
        off, i = {}, 0
        for n, t in self.fields.items():
            k = len(t.sorts())
            off[n] = (i, i + 1, i + 1 + k, t)
            i += 1 + k
        return off


def sdict_empty(t, prefix="sd"):
    comps = []
    for n, ft in t.fields.items():
        comps.append(z3.BoolVal(False))
        comps.extend(fresh(f"{prefix}.{n}", s) for s in ft.sorts())
    return V(t, comps)


class Fn(T):
    """An opaque callable (external with an assumed contract)."""

    kind = "fn"

    def __init__(self, name):
        self.name = name

    def sorts(self):
        return []


class V:
    """A symbolic value: type + flat component list. Immutable."""

    __slots__ = ("t", "c", "py")

    def __init__(self, t, c, py=None):
        self.t = t
        self.c = list(c)
        self.py = py  # concrete python payload (e.g. a str constant / callable)

    def __repr__(self):
        return f"V<{self.t}:{self.c}>"

    # scalar helpers
    @property
    def term(self):
        assert len(self.c) == 1, (self.t, self.c)
        return self.c[0]


def mk_int(x):
    if isinstance(x, bool):
        raise TypeError
    return V(Int, [z3.IntVal(x) if isinstance(x, int) else x])


def mk_bool(x):
    return V(Bool, [z3.BoolVal(x) if isinstance(x, bool) else x])


def mk_real(x):
    return V(Real, [z3.RealVal(x) if isinstance(x, (int, float, str)) else x])


def mk_none():
    return V(NoneT, [])


def havoc(t, name="h"):
    return V(t, [fresh(name, s) for s in t.sorts()])


def split(t, comps):
    """Split the flat comps of a Tuple/Rec/Opt into per-item V's."""
    out = []
    i = 0
    if isinstance(t, Tuple):
        parts = t.ts
    elif isinstance(t, Rec):
        parts = list(t.fields.values())
    else:
        raise TypeError(t)
    for pt in parts:
        n = len(pt.sorts())
        out.append(V(pt, comps[i : i + n]))
        i += n
    return out


def mk_tuple(vs):
    return V(Tuple([v.t for v in vs]), [c for v in vs for c in v.c])


def mk_opt_none(t):
    return V(Opt(t), [z3.BoolVal(True)] + [fresh("nil", s) for s in t.sorts()])


def mk_opt_some(v):
    return V(Opt(v.t), [z3.BoolVal(False)] + v.c)


def ite(cond, a, b):
    assert len(a.c) == len(b.c), (a, b)
    return V(a.t, [z3.If(cond, x, y) for x, y in zip(a.c, b.c)])


def wf(v, name="v"):
    """Well-formedness facts implied by the Python type (lengths >= 0, odict
    key list is distinct and agrees with the map's domain)."""
    t = v.t
    facts = []
    if isinstance(t, List):
        facts.append(v.c[0] >= 0)
    elif isinstance(t, ODict):
        n = len(t.keys_t.sorts())
        keys = V(t.keys_t, v.c[:n])
        mp = V(t.map_t, v.c[n:])
        ln, arr = keys.c[0], keys.c[1]
        dom = mp.c[0]
        p, q, k = z3.Ints(f"{name}!p {name}!q {name}!k")
        facts.append(ln >= 0)
        facts.append(z3.ForAll([p], z3.Implies(z3.And(0 <= p, p < ln), dom[arr[p]])))
        facts.append(
            z3.ForAll([p, q], z3.Implies(z3.And(0 <= p, p < q, q < ln), arr[p] != arr[q]))
        )
        pos = z3.Function(f"{name}!pos!{next(_fresh)}", IntS, IntS)
        facts.append(
            z3.ForAll([k], z3.Implies(dom[k], z3.And(0 <= pos(k), pos(k) < ln, arr[pos(k)] == k)))
        )
    elif isinstance(t, Map) and isinstance(t.v, List):
        # the values of a dict of lists are lists: their lengths are non-negative
        k = z3.Int(f"{name}!mk")
        ln = v.c[1]
        if z3.is_const(ln) and ln.decl().kind() == z3.Z3_OP_UNINTERPRETED:
            facts.append(z3.ForAll([k], ln[k] >= 0, patterns=[ln[k]]))
    elif isinstance(t, (Tuple, Rec)):
        for sub in split(t, v.c):
            facts.extend(wf(sub, name))
    elif isinstance(t, Opt):
        facts.extend(wf(V(t.t, v.c[1:]), name))
    return facts
