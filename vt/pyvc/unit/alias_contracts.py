from .. import types as Ty
from ..contract import Contract, Loop

from ..engine import ObjT

CounterT = ObjT("Counter", {"n": Ty.Int})
D = Ty.Map(Ty.Key, Ty.Set(Ty.Int))
M = "vt.pyvc.unit.alias_fns:"
KEEP = "keys(d) == old(keys(d))"
EXPECT = {}


def c(name, expect, **kw):
    ct = Contract(target=M + name, variant=kw.pop("variant", None), **kw)
    EXPECT[ct.key] = expect
    return ct


CONTRACTS = [
    c("add_via_alias", "ok", params={"d": D, "k": Ty.Key}, requires=["k in d"], returns=D,
      ensures=["1 in result[k]", "forall(keys(result), lambda q: implies(q != k, result[q] == old(d[q])))", "forall(lambda x: implies(x != 1, (x in result[k]) == old(x in d[k])))"]),
    c("add_via_alias", "fail", variant="wrong", params={"d": D, "k": Ty.Key}, requires=["k in d"], returns=D, ensures=["not (1 in result[k])"]),
    c("add_to_all", "ok", params={"d": D}, returns=D, nloops=1,
      loops={0: Loop(seen="S", inv=[KEEP, "forall(S, lambda q: 0 in d[q])", "forall(keys(d), lambda q: forall(lambda x: implies(x != 0, (x in d[q]) == old(x in d[q]))))"])},
      ensures=["forall(keys(result), lambda q: 0 in result[q])", "forall(keys(result), lambda q: forall(lambda x: implies(x != 0, (x in result[q]) == old(x in d[q]))))"]),
    c("add_to_all", "fail", variant="wrong", params={"d": D}, returns=D, nloops=1,
      loops={0: Loop(seen="S", inv=[KEEP])}, ensures=["forall(keys(result), lambda q: result[q] == old(d[q]))"]),
    c("add_to_all_values", "ok", params={"d": D}, returns=D, nloops=1,
      loops={0: Loop(seen="S", inv=[KEEP, "forall(S, lambda q: 0 in d[q])"])}, ensures=["forall(keys(result), lambda q: 0 in result[q])"]),
    c("group", "ok", params={"items": Ty.List(Ty.Key), "d": D}, requires=["keys(d) == empty()"], returns=D, nloops=1,
      loops={0: Loop(pos="t", inv=["forall(lambda q: (q in d) == exists(0, t, lambda p: items[p] == q))", "forall(keys(d), lambda q: forall(lambda x: (x in d[q]) == (x == q)))"])},
      ensures=["forall(lambda q: (q in result) == exists(0, len(items), lambda p: items[p] == q))", "forall(keys(result), lambda q: q in result[q])"]),
    c("group", "fail", variant="wrong", params={"items": Ty.List(Ty.Key), "d": D}, requires=["keys(d) == empty()"], returns=D, nloops=1,
      loops={0: Loop(pos="t", inv=[])}, ensures=["keys(result) == empty()"]),
    c("bucket_add", "ok", params={"buckets": Ty.List(Ty.Map(Ty.Key, Ty.Int)), "m": Ty.Int, "k": Ty.Key}, requires=["0 <= m and m < len(buckets)"],
      returns=Ty.List(Ty.Map(Ty.Key, Ty.Int)),
      ensures=["k in result[m] and result[m][k] == 1", "forall(0, len(result), lambda q: implies(q != m, result[q] == old(buckets[q])))", "len(result) == old(len(buckets))"]),
    c("bucket_add", "fail", variant="wrong", params={"buckets": Ty.List(Ty.Map(Ty.Key, Ty.Int)), "m": Ty.Int, "k": Ty.Key}, requires=["0 <= m and m < len(buckets)"],
      returns=Ty.List(Ty.Map(Ty.Key, Ty.Int)), ensures=["not (k in result[m])"]),
    c("stale", "unsupported", params={"d": D, "k": Ty.Key}, requires=["k in d"], returns=D, ensures=["True"]),
    c("loop_then_read", "ok", params={"d": D, "k": Ty.Key}, requires=["k in d"], returns=Ty.Bool, nloops=1,
      loops={0: Loop(seen="S", inv=[KEEP, "forall(S, lambda q: 5 in d[q])"])}, ensures=["result"]),
    # bit operations are uninterpreted: only what the control flow establishes is known
    c("overlap", "ok", params={"a": Ty.Int, "b": Ty.Int}, returns=Ty.Int, ensures=["(result == 1) == (bitand(a, b) != 0)"],
      externals={"bitand": lambda e, st, a, n, k: Ty.V(Ty.Int, [e.specfns["bitand"][0](e.num(a[0]), e.num(a[1]))])}),
    c("overlap", "fail", variant="wrong", params={"a": Ty.Int, "b": Ty.Int}, requires=["a == 1 and b == 2"], returns=Ty.Int, ensures=["result == 0"]),
    # a local first assigned inside a loop: reading it needs a proof that the assignment happened
    c("last_big", "fail", params={"xs": Ty.List(Ty.Int)}, requires=["len(xs) >= 1"], returns=Ty.Int, hints={"hit": Ty.Int}, nloops=1,
      loops={0: Loop(pos="t", inv=["True"])}, ensures=["True"]),
    c("last_seen", "ok", params={"xs": Ty.List(Ty.Int)}, requires=["len(xs) >= 1"], returns=Ty.Int, hints={"cur": Ty.Int}, nloops=1,
      loops={0: Loop(pos="t", inv=["implies(t >= 1, isbound('cur') and cur == xs[t - 1])"])}, ensures=["result == xs[len(xs) - 1]"]),
    c("last_seen", "fail", variant="wrong", params={"xs": Ty.List(Ty.Int)}, returns=Ty.Int, hints={"cur": Ty.Int}, nloops=1,
      loops={0: Loop(pos="t", inv=["implies(t >= 1, isbound('cur') and cur == xs[t - 1])"])}, ensures=["True"]),
    # identity with False on a bool, truth value of an Optional list
    c("pick", "ok", params={"flag": Ty.Bool, "perm": Ty.Opt(Ty.List(Ty.Int))}, returns=Ty.Int,
      ensures=["(result == 1) == flag", "(result == 2) == (not flag and perm is not None and len(unopt(perm)) > 0)"]),
    c("pick", "fail", variant="wrong", params={"flag": Ty.Bool, "perm": Ty.Opt(Ty.List(Ty.Int))}, returns=Ty.Int, ensures=["implies(perm is not None, result != 3)"]),
    # a loop that calls a contracted method: what the callee's `modifies` names is havoced at the loop head
    c("Counter.bump", "ok", self_type=CounterT, params={}, returns=Ty.NoneT, modifies=["self.n"], ensures=["self.n == old(self.n) + 1"]),
    c("Counter.run", "ok", self_type=CounterT, params={"k": Ty.Int}, requires=["k >= 0"], returns=Ty.Int, modifies=["self.n"], nloops=1,
      loops={0: Loop(pos="t", inv=["self.n == old(self.n) + t"])}, ensures=["result == old(self.n) + k"]),
    c("Counter.run", "fail", variant="wrong", self_type=CounterT, params={"k": Ty.Int}, requires=["k >= 0"], returns=Ty.Int, modifies=["self.n"], nloops=1,
      loops={0: Loop(pos="t", inv=["True"])}, ensures=["result == old(self.n)"]),
]
