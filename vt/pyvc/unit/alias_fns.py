"""Tiny functions exercising dict-entry aliasing (engine unit tests, not repository code)."""


def add_via_alias(d, k):
    x = d[k]
    x.add(1)
    return d


def add_to_all(d):
    for k, v in d.items():
        v.add(0)
    return d


def add_to_all_values(d):
    for v in d.values():
        v.add(0)
    return d


def group(items, d):
    for k in items:
        d.setdefault(k, set()).add(k)
    return d


def stale(d, k):
    x = d[k]
    d[k] = set()
    x.add(1)  # x is still the OLD set in Python: outside the model
    return d


def loop_then_read(d, k):
    for q, v in d.items():
        v.add(5)
    return 5 in d[k]


def bucket_add(buckets, m, k):
    b = buckets[m]
    b[k] = 1
    return buckets


def overlap(a, b):
    if a & b:
        return 1
    return 0



def last_big(xs):
    for x in xs:
        if x > 3:
            hit = x
    return hit


def last_seen(xs):
    for x in xs:
        cur = x
    return cur


def pick(flag, perm):
    if flag is not False:
        return 1
    if perm:
        return 2
    return 3



class Counter:
    def __init__(self):
        self.n = 0

    def bump(self):
        self.n += 1

    def run(self, k):
        for _ in range(k):
            self.bump()
        return self.n
