"""python -m vt.pyvc.unit.run : engine unit tests (expected verdicts on tiny functions)."""
import sys

from ..contract import Registry
from ..verify import verify_function
from . import alias_contracts as AC


def main():
    reg = Registry()
    for c in AC.CONTRACTS:
        reg.add(c)
    bad = 0
    for c in AC.CONTRACTS:
        r = verify_function(c, reg)
        allok = r.status == "ok" and all(o["status"] == "discharged" for o in r.obligations)
        got = "ok" if allok else ("unsupported" if r.status != "ok" else "fail")
        want = AC.EXPECT[c.key]
        flag = "" if got == want else "   <<<<<< MISMATCH"
        bad += got != want
        print(f"{c.key:60s} want={want:12s} got={got:12s} {r.why[:80] if r.status != 'ok' else ''}{flag}")
    sys.exit(1 if bad else 0)


if __name__ == "__main__":
    main()
