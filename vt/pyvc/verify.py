"""Verify one function against its sidecar contract: build the initial
symbolic state, run the executor, generate and discharge obligations."""

from __future__ import annotations

import ast
import os
import subprocess
import tempfile
import time
import traceback

import z3

from . import types as Ty
from .types import V, Int, Bool, Key, Real
from . import engine as E
from .engine import Engine, Unsupported, Ref, Obj, ObjT, PyConst, State, Obligation
from .contract import Contract, Lemma

# Solver budgets are z3 resource units (deterministic: the same query gets the
# same verdict on an idle and on a saturated machine); the wall-clock timeout is
# only a safety net far above what the budget can take.
# (about 2e6 units per CPU second here; the slowest obligation on the pinned tree needs 4e6)
Z3_RLIMIT = int(os.environ.get("VERIF_Z3_RLIMIT", "40000000"))
Z3_TIMEOUT_MS = int(os.environ.get("VERIF_Z3_TIMEOUT_MS", "180000"))
RL_PER_MS = 2000  # conversion used for the small auxiliary budgets below


def budget(s, ms, wall=20):
    """Give solver `s` a deterministic budget equivalent to about `ms` idle
    milliseconds; the wall-clock limit is `wall` times that.  Use wall=2 only
    where a timeout is harmless (canary, satisfiability of the precondition,
    path pruning: only `unsat` is acted upon there)."""
    s.set("rlimit", ms * RL_PER_MS)
    s.set("timeout", max(ms * wall, 2000))


RL_STATS = []  # (rlimit count, cpu seconds) per solver call, for calibration


def _checked(s):
    """s.check() with resource accounting."""
    c0 = time.process_time()
    try:
        r = s.check()
    except z3.Z3Exception as e:  # memory cap reached (or the solver gave up another way): undecided, never a verdict
        RL_STATS.append((0, time.process_time() - c0, "unknown:" + str(e)[:60]))
        return z3.unknown
    try:
        st = s.statistics()
        rl = next((st.get_key_value(k) for k in st.keys() if k == "rlimit count"), 0)
    except Exception:
        rl = 0
    global _RL_LAST
    # z3 reports the counter cumulatively per context
    RL_STATS.append((rl - _RL_LAST, time.process_time() - c0, str(r)))
    _RL_LAST = rl
    return r


_RL_LAST = 0
# a hard cap on the solver's memory: a query that needs more is reported `unknown` (a broken body once drove the
# nonlinear engine to 13 GB for ten minutes inside its resource budget)
z3.set_param("memory_max_size", int(os.environ.get("VERIF_Z3_MEM_MB", "6000")))
CLI_TIMEOUT_S = int(os.environ.get("VERIF_CLI_TIMEOUT_S", "12"))


# ------------------------------------------------------------ engine extras
def _resolve_function_contract(self, name):
    if self.module is None:
        return None
    obj = getattr(self.module, name, None)
    if obj is None or not callable(obj):
        return None
    mod = getattr(obj, "__module__", None)
    qual = getattr(obj, "__qualname__", None)
    if mod is None or qual is None:
        return None
    return self.registry.by_target.get(f"{mod}:{qual}")


def _resolve_method_contract(self, rp, meth):
    # rp: ('self',) or ('self','_sizes') ... resolved through declared types
    c = self.contract
    t = None
    if rp[0] == "self" and c.self_type is not None:
        t = c.self_type
    elif rp[0] in c.params:
        t = c.params[rp[0]]
    elif rp[0] in c.hints:
        t = c.hints[rp[0]]
    for a in rp[1:]:
        if isinstance(t, ObjT) and a in t.fields:
            t = t.fields[a]
        else:
            return None
    if isinstance(t, ObjT):
        return self.registry.get_method(t.cls, meth)
    return None


def _external(self, st, name, args, node, kwargs=None):
    fn = self.contract.externals.get(name)
    if fn is None:
        fn = GLOBAL_EXTERNALS.get(name)
    if fn is None:
        return None
    return fn(self, st, args, node, kwargs or {})


def _prodset(self, S, szv):
    sz = szv.c[1] if isinstance(szv.t, Ty.Map) else (szv.c[len(szv.t.keys_t.sorts()) + 1] if isinstance(szv.t, Ty.ODict) else szv.c[1])
    if "PS" not in self.specfns:
        SetS = z3.ArraySort(Ty.IntS, Ty.BoolS)
        ArrS = z3.ArraySort(Ty.IntS, Ty.IntS)
        PS = z3.Function("PS", SetS, ArrS, Ty.IntS)
        self.specfns["PS"] = (PS, ["S", "sz"], Int, None)
        S_, z_ = z3.Const("ps!S", SetS), z3.Const("ps!z", ArrS)
        k = z3.Int("ps!k")
        self.axioms.append(z3.ForAll([z_], PS(z3.K(Ty.IntS, z3.BoolVal(False)), z_) == 1))
        self.axioms.append(
            z3.ForAll([S_, k, z_], z3.Implies(z3.Not(S_[k]), PS(z3.Store(S_, k, True), z_) == z_[k] * PS(S_, z_)),
                      patterns=[PS(z3.Store(S_, k, True), z_)])
        )
        self.axioms.append(
            z3.ForAll([S_, k, z_], z3.Implies(S_[k], PS(S_, z_) == z_[k] * PS(z3.Store(S_, k, False), z_)),
                      patterns=[PS(z3.Store(S_, k, False), z_)])
        )
    PS = self.specfns["PS"][0]
    seen = self.__dict__.setdefault("_ps_sz", [])
    if not any(sz.eq(x) for x in seen):
        seen.append(sz)
        S_ = z3.Const("ps!S2", z3.ArraySort(Ty.IntS, Ty.BoolS))
        k = z3.Int("ps!k2")
        self.axioms.append(
            z3.Implies(z3.ForAll([k], sz[k] >= 1), z3.ForAll([S_], PS(S_, sz) >= 1, patterns=[PS(S_, sz)]))
        )
    return PS(S, sz)


def _card(self, S):
    if "card" not in self.specfns:
        SetS = z3.ArraySort(Ty.IntS, Ty.BoolS)
        card = z3.Function("card", SetS, Ty.IntS)
        self.specfns["card"] = (card, ["S"], Int, None)
        S_ = z3.Const("cd!S", SetS)
        k = z3.Int("cd!k")
        self.axioms.append(card(z3.K(Ty.IntS, z3.BoolVal(False))) == 0)
        self.axioms.append(z3.ForAll([S_], card(S_) >= 0, patterns=[card(S_)]))
        self.axioms.append(z3.ForAll([S_, k], z3.Implies(z3.Not(S_[k]), card(z3.Store(S_, k, True)) == card(S_) + 1), patterns=[card(z3.Store(S_, k, True))]))
        self.axioms.append(z3.ForAll([S_, k], z3.Implies(S_[k], card(z3.Store(S_, k, False)) == card(S_) - 1), patterns=[card(z3.Store(S_, k, False))]))
        self.axioms.append(z3.ForAll([S_], z3.Implies(card(S_) == 0, S_ == z3.K(Ty.IntS, z3.BoolVal(False))), patterns=[card(S_)]))
        # finite sets: a subset of the same cardinality is the whole set
        T_ = z3.Const("cd!T", SetS)
        self.axioms.append(z3.ForAll([S_, T_], z3.Implies(z3.And(z3.IsSubset(S_, T_), card(S_) == card(T_)), S_ == T_),
                                     patterns=[z3.MultiPattern(card(S_), card(T_))]))
        # library lemma (a consequence of the axioms above, proved on every run): a set of cardinality one has one element
        a_, b_ = z3.Ints("cd!a cd!b")
        base = list(self.axioms[-6:])
        S1 = z3.Store(S_, a_, False)
        sol = z3.Solver()
        sol.set("timeout", 20000)
        for ax in base:
            sol.add(ax)
        sol.add(card(S_) == 1, S_[a_], S_[b_], a_ != b_)
        sol.add(card(S1) >= 0)  # (names the term that keys the removal axiom)
        t0 = time.time()
        r = sol.check()
        self.library_lemmas = getattr(self, "library_lemmas", []) + [{
            "label": "library lemma card-one (card(S) == 1 and a, b in S implies a == b)", "kind": "library-lemma",
            "status": "discharged" if r == z3.unsat else ("refuted" if r == z3.sat else "unknown"), "backend": "z3", "time_s": time.time() - t0, "detail": None, "line": None}]
        if r == z3.unsat:
            self.axioms.append(z3.ForAll([S_, a_, b_], z3.Implies(z3.And(card(S_) == 1, S_[a_], S_[b_]), a_ == b_),
                                         patterns=[z3.MultiPattern(card(S_), S_[a_], S_[b_])]))
    return self.specfns["card"][0](S)


def _uninterpreted(self, name, v):
    sorts = [c.sort() for c in v.c]
    key = f"uf!{name}!" + ",".join(str(s) for s in sorts)
    if key not in self.specfns:
        self.specfns[key] = (z3.Function(key, *sorts, Ty.IntS), [], Int, None)
    return self.specfns[key][0](*v.c)


def _infinity(self, neg=False):
    """float('inf') as a real constant larger than every value the contract
    bounds (assumed: contract states comparisons explicitly)."""
    if "INF" not in self.specfns:
        c = z3.Real("INF")
        self.specfns["INF"] = (c, [], Real, None)
    c = self.specfns["INF"][0]
    return V(Real, [-c if neg else c])


def _isinstance(self, st, v, names):
    vv = self.deref(st, v)
    res = []
    for n in names:
        n = n.split(".")[-1]
        if isinstance(vv, V):
            t = vv.t
            if isinstance(t, Ty.Opt):
                inner = _type_is(t.t, n)
                res.append(z3.And(z3.Not(vv.c[0]), z3.BoolVal(inner)))
                continue
            if hasattr(t, "tag") and t.tag is not None:
                res.append(t.tag(vv, n))
                continue
            res.append(z3.BoolVal(_type_is(t, n)))
        elif isinstance(vv, Obj):
            res.append(z3.BoolVal(vv.cls.split(".")[-1] == n or n in getattr(vv, "bases", ())))
        elif isinstance(vv, PyConst):
            import builtins

            cls = getattr(builtins, n, None)
            res.append(z3.BoolVal(cls is not None and isinstance(vv.val, cls)))
        else:
            raise Unsupported("isinstance")
    return z3.Or(*res) if len(res) > 1 else res[0]


def _type_is(t, n):
    return {
        "int": isinstance(t, Ty._Int) and not isinstance(t, Ty._Key),
        "Integral": isinstance(t, Ty._Int),
        "float": isinstance(t, Ty._Real),
        "bool": isinstance(t, Ty._Bool),
        "tuple": isinstance(t, Ty.Tuple),
        "list": isinstance(t, Ty.List),
        "dict": isinstance(t, (Ty.Map, Ty.ODict)),
        "set": isinstance(t, Ty.Set),
        "frozenset": isinstance(t, Ty.Set),
        "str": isinstance(t, Ty._Key),
    }.get(n, False)


def _lemma_formula(self, st, lem):
    node = self.parse_expr(lem.claim)
    zc = z3.Int(f"lem!{lem.name}!{lem.var}")
    old = dict(self.bound)
    self.bound[lem.var] = V(Int, [zc])
    old_mode = self.spec_mode
    self.spec_mode = True
    try:
        lo = self.num(self.eval(st, self.parse_expr(lem.lo)))
        hi = self.num(self.eval(st, self.parse_expr(lem.hi)))
        body = self.truth(st, self.eval(st, node))
    finally:
        self.bound = old
        self.spec_mode = old_mode
    return z3.ForAll([zc], z3.Implies(z3.And(lo <= zc, zc <= hi), body))


Engine.resolve_function_contract = _resolve_function_contract
Engine.resolve_method_contract = _resolve_method_contract
Engine.external = _external
Engine.prodset = _prodset
Engine.card = _card
Engine.uninterpreted = _uninterpreted
Engine.infinity = _infinity
Engine.isinstance_ = _isinstance
Engine.lemma_formula = _lemma_formula

GLOBAL_EXTERNALS = {}


def external(name):
    def deco(fn):
        GLOBAL_EXTERNALS[name] = fn
        return fn

    return deco


@external("bisect_left")
def _bisect_left(engine, st, args, node, kwargs):
    """Contract of bisect.bisect_left on a list of ints (assumed, stdlib):
    requires the list sorted ascending; returns r in [0, len] with
    all(a[p] < x for p < r) and all(a[p] >= x for p >= r)."""
    lst = engine.deref(st, args[0])
    x = engine.num(args[1])
    if not (isinstance(lst, V) and isinstance(lst.t, Ty.List) and len(lst.c) == 2):
        raise Unsupported("bisect_left on non int list")
    ln, a = lst.c
    p, q = z3.Ints("bs!p bs!q")
    engine.oblige(st, z3.ForAll([p, q], z3.Implies(z3.And(0 <= p, p < q, q < ln), a[p] <= a[q])),
                  f"bisect_left argument sorted at line {engine.line(node)}", "call-pre", node)
    r = engine.fresh(st, "bisect", node, Ty.IntS)
    st.assume(z3.And(0 <= r, r <= ln))
    st.assume(z3.ForAll([p], z3.Implies(z3.And(0 <= p, p < r), a[p] < x)))
    st.assume(z3.ForAll([p], z3.Implies(z3.And(r <= p, p < ln), a[p] >= x)))
    return V(Int, [r])


@external("builtin_max")
def _builtin_max(engine, st, args, node, kwargs):
    """max(<dict or set>): the greatest key; raises ValueError iff empty
    (assumed contract of the builtin)."""
    from .engine import NeedSplit, RaiseSignal

    c = engine.deref(st, args[0])
    if not (isinstance(c, V) and isinstance(c.t, (Ty.Map, Ty.Set))):
        raise Unsupported("max() of this container")
    dom = c.c[0]
    empty = dom == z3.K(Ty.IntS, z3.BoolVal(False))
    d = st.decided(empty)
    if d is None:
        raise NeedSplit(empty)
    if d:
        raise RaiseSignal("ValueError")
    r = engine.fresh(st, "max", node, Ty.IntS)
    k = z3.Int("mx!k")
    st.assume(dom[r])
    st.assume(z3.ForAll([k], z3.Implies(dom[k], k <= r)))
    return V(Int, [r])


@external("builtin_min")
def _builtin_min(engine, st, args, node, kwargs):
    """min(<dict or set>): the least key; raises ValueError iff empty."""
    from .engine import NeedSplit, RaiseSignal

    c = engine.deref(st, args[0])
    if not (isinstance(c, V) and isinstance(c.t, (Ty.Map, Ty.Set))):
        raise Unsupported("min() of this container")
    dom = c.c[0]
    empty = dom == z3.K(Ty.IntS, z3.BoolVal(False))
    d = st.decided(empty)
    if d is None:
        raise NeedSplit(empty)
    if d:
        raise RaiseSignal("ValueError")
    r = engine.fresh(st, "min", node, Ty.IntS)
    k = z3.Int("mn!k")
    st.assume(dom[r])
    st.assume(z3.ForAll([k], z3.Implies(dom[k], k >= r)))
    return V(Int, [r])


@external("object.__new__")
def _object_new(engine, st, args, node, kwargs):
    """object.__new__(cls): a fresh object with no attribute set yet."""
    cls = args[0]
    if not isinstance(cls, PyConst) or not isinstance(cls.val, type):
        raise Unsupported("object.__new__ of a computed class")
    name = cls.val.__name__
    t = engine.contract.self_type
    if t is None or t.cls != name:
        t = ObjT(name, {})
    ob = Obj(name, {})
    i = engine.new_id()
    st.heap[i] = ob
    return Ref(i, t)


GLOBAL_EXTERNALS["bisect.bisect_left"] = _bisect_left
GLOBAL_EXTERNALS["bisect.bisect_left".split(".")[-1]] = _bisect_left


# --------------------------------------------------------- initial state
def make_value(engine, st, t, name):
    """Fresh symbolic value of declared type; containers/objects on the heap."""
    if isinstance(t, ObjT):
        fields = {}
        for fn_, ft in t.fields.items():
            fields[fn_] = make_value(engine, st, ft, f"{name}.{fn_}")
        ob = Obj(t.cls, fields)
        ob.bases = getattr(t, "bases", ())
        i = engine.new_id()
        st.heap[i] = ob
        return Ref(i, t)
    if isinstance(t, Ty.Fn):
        return PyConst(("extern", t.name))
    v = V(t, [z3.Const(f"{name}.{j}", s) for j, s in enumerate(t.sorts())])
    for f in Ty.wf(v, name):
        st.assume(f)
    if t.mutable:
        return engine.alloc(st, v)
    return v


class FnResult:
    def __init__(self, contract):
        self.contract = contract
        self.target = contract.target
        self.status = "ok"  # ok | unsupported | missing | crash
        self.why = ""
        self.obligations = []  # dict(label, kind, status, backend, time_s, model)
        self.canary = None
        self.pre_sat = None
        self.dropped = []
        self.lineno = None
        self.wall = 0.0


def bind_params_for_call(*a, **k):  # placeholder kept for import compatibility
    raise NotImplementedError


_SYM_CACHE = {}


def _mentions(e, prefix):
    """does formula e contain a function symbol whose name starts with prefix?"""
    key = (e.get_id(), prefix)
    if key in _SYM_CACHE:
        return _SYM_CACHE[key]
    seen, stack, hit = set(), [e], False
    while stack and not hit:
        x = stack.pop()
        if x.get_id() in seen:
            continue
        seen.add(x.get_id())
        if z3.is_quantifier(x):
            stack.append(x.body())
        elif z3.is_app(x):
            if x.decl().kind() == z3.Z3_OP_UNINTERPRETED and x.decl().name().startswith(prefix):
                hit = True
            stack.extend(x.children())
    _SYM_CACHE[key] = hit
    return hit


# theories whose facts are only ever needed by goals that mention them: leaving
# them out of the other queries keeps those small (dropping hypotheses is sound)


def solver_for(engine, pc, goal=None):
    s = z3.Solver()
    s.set("timeout", Z3_TIMEOUT_MS)
    s.set("rlimit", Z3_RLIMIT)
    own = getattr(engine.contract, "budget_ms", None)
    if own:
        # a contract whose obligations all discharge in a fraction of a second may set a smaller budget (a
        # multiple of what it needs): on a broken body the failing obligations then answer sooner
        budget(s, own, wall=4)
    # (opt-in per contract: where the theory's facts are also needed by goals that do not mention it - e.g. a key
    #  known to be present because its count is positive - nothing is hidden)
    hide = [pre for pre in getattr(engine.contract, "local_theories", ()) if goal is not None and not _mentions(goal, pre)]
    for a in engine.axioms:
        if not any(_mentions(a, pre) for pre in hide):
            s.add(a)
    for p in pc:
        if not any(_mentions(p, pre) for pre in hide):
            s.add(p)
    return s


def discharge(engine, ob, want_model=True, quick_ms=None):
    """Returns (status, backend, seconds, detail)."""
    t0 = time.time()
    if getattr(ob, "trivial", False):
        return "discharged", "syntactic", 0.0, None
    s = solver_for(engine, ob.pc, ob.goal)
    hintable = "PS" in engine.specfns or "card" in engine.specfns or "pow10" in engine.specfns
    if quick_ms:
        budget(s, quick_ms, wall=2)
    elif hintable and getattr(engine.contract, "prefer_hints", False):
        # a first, short attempt: obligations that need the derived hints
        # below would otherwise burn the whole budget before getting them
        budget(s, 2500)
    s.add(z3.Not(ob.goal))
    r = _checked(s)
    dt = time.time() - t0
    if r == z3.unsat:
        return "discharged", "z3", dt, None
    if r != z3.sat and "pow10" in engine.specfns:
        # exponent laws instantiated at the terms present; then quantifier-free
        # nonlinear real arithmetic (nlsat) decides the goal
        inst = pow10_instances(engine, ob)
        qf = [p for p in ob.pc if not _has_quantifier(p)]
        st2, be2, dt2, det2 = discharge_qf(qf + inst, ob.goal)
        if st2 == "discharged":
            return "discharged", be2 + "+pow10inst", time.time() - t0, None
    if r != z3.sat and hintable and not quick_ms:
        # bag abstraction: the prodset axioms only fire on syntactic
        # store-terms; derive the needed instances by set matching.  This
        # second attempt has the full budget (with or without hints).
        hints = ps_hints(engine, ob) if ("PS" in engine.specfns or "card" in engine.specfns) else []
        if True:
            s2 = solver_for(engine, ob.pc, ob.goal)
            for h in hints:
                s2.add(h)
            s2.add(z3.Not(ob.goal))
            r2 = _checked(s2)
            if r2 == z3.unsat:
                return "discharged", ("z3+sethints" if hints else "z3"), time.time() - t0, None
            s, r = s2, r2
            dt = time.time() - t0
    detail = None
    if r == z3.sat:
        try:
            m = s.model()
            detail = model_summary(m)
        except z3.Z3Exception:
            detail = None
        # a model of a quantified query may be spurious only if z3 says unknown;
        # 'sat' is definitive
        return "refuted", "z3", dt, detail
    if quick_ms or not getattr(engine, "use_cli", True):
        return "unknown", "z3", dt, str(s.reason_unknown())
    # unknown: second opinions on the SMT-LIB dump
    smt = s.to_smt2()
    for backend, cmd in (
        ("cvc5", ["/usr/bin/cvc5", "--lang=smt2", f"--tlimit={CLI_TIMEOUT_S * 1000}", "--full-saturate-quant"]),
        ("z3-4.8", ["/usr/bin/z3", "-smt2", f"-T:{CLI_TIMEOUT_S}"]),
    ):
        res = run_cli(cmd, smt)
        if res == "unsat":
            return "discharged", backend, time.time() - t0, None
        if res == "sat":
            return "refuted", backend, time.time() - t0, None
    return "unknown", "z3", time.time() - t0, str(s.reason_unknown())


def _subterms(e, acc, seen):
    if e.get_id() in seen:
        return
    seen.add(e.get_id())
    acc.append(e)
    if z3.is_quantifier(e):
        return
    for c in e.children():
        _subterms(c, acc, seen)


def pow10_instances(engine, ob):
    f = engine.specfns["pow10"][0]
    acc, seen = [], set()
    for e in list(ob.pc) + [ob.goal]:
        _subterms(e, acc, seen)
    args = []
    for t in acc:
        if z3.is_app(t) and t.decl().eq(f):
            a = t.arg(0)
            if not any(a.eq(x) for x in args):
                args.append(a)
    inst = [f(z3.RealVal(0)) == 1]
    for a in args:
        inst.append(f(a) > 0)
    for a in args:
        for b in args:
            s_ = z3.simplify(a + b)
            inst.append(f(s_) == f(a) * f(b))
            d_ = z3.simplify(a - b)
            inst.append(f(a) == f(d_) * f(b))
    return inst


def ps_hints(engine, ob):
    """Instances of the prodset/card axioms found by *semantic* set matching:
    for PS(S_new) in the goal and PS(S_old) in the path condition, if the
    quantifier-free part of the path condition entails
        S_new == store(S_old, k, True) and not S_old[k]      (k a key term)
    then PS(S_new) == sz[k] * PS(S_old) is an instance of the axiom (and
    S_new == S_old gives equality by congruence).  Every hint is entailed by
    axioms + path condition, so adding it is sound."""
    fns = {}
    for name in ("PS", "card"):
        if name in engine.specfns:
            fns[name] = engine.specfns[name][0]
    qf = [p for p in ob.pc if not _has_quantifier(p)]
    acc, seen = [], set()
    for e in list(ob.pc) + [ob.goal]:
        _subterms(e, acc, seen)
    apps = {n: [] for n in fns}
    keys = []
    for t in acc:
        if z3.is_app(t):
            d = t.decl()
            for n, f in fns.items():
                if d.eq(f):
                    apps[n].append(t)
            if t.sort() == Ty.IntS and z3.is_const(t) and t.decl().kind() == z3.Z3_OP_UNINTERPRETED and "pick" in t.decl().name():
                keys.append(t)
            if z3.is_store(t):
                k = t.arg(1)
                if k.sort() == Ty.IntS:
                    keys.append(k)
    ukeys = []
    for k in keys:
        if not any(k.eq(x) for x in ukeys):
            ukeys.append(k)
    goal_acc, gseen = [], set()
    _subterms(ob.goal, goal_acc, gseen)
    goal_ids = {t.get_id() for t in goal_acc}

    def entails(f):
        sol = z3.Solver()
        budget(sol, 1500)
        for p in qf:
            sol.add(p)
        sol.add(z3.Not(f))
        return sol.check() == z3.unsat

    hints = []
    left = 60
    for n, lst in apps.items():
        news = [t for t in lst if t.get_id() in goal_ids]
        for tn in news:
            Sn = tn.arg(0)
            for to in lst:
                if to.get_id() == tn.get_id() or left <= 0:
                    continue
                So = to.arg(0)
                if n == "PS" and not tn.arg(1).eq(to.arg(1)):
                    continue
                left -= 1
                if entails(Sn == So):
                    hints.append(Sn == So)
                    continue
                for k in ukeys:
                    if left <= 0:
                        break
                    left -= 1
                    if entails(z3.And(Sn == z3.Store(So, k, True), z3.Not(So[k]))):
                        if n == "PS":
                            hints.append(tn == tn.arg(1)[k] * to)
                        else:
                            hints.append(tn == to + 1)
                        break
                    if entails(z3.And(Sn == z3.Store(So, k, False), So[k])):
                        if n == "PS":
                            hints.append(to == to.arg(1)[k] * tn)
                        else:
                            hints.append(tn == to - 1)
                        break
    return hints


def run_cli(cmd, smt):
    try:
        with tempfile.NamedTemporaryFile("w", suffix=".smt2", delete=False) as f:
            f.write("(set-logic ALL)\n" if "cvc5" in cmd[0] else "")
            f.write(smt)
            path = f.name
        try:
            out = subprocess.run(cmd + [path], capture_output=True, text=True, timeout=CLI_TIMEOUT_S + 5)
            first = (out.stdout.strip().splitlines() or [""])[0].strip()
            return first
        finally:
            os.unlink(path)
    except Exception:  # noqa: BLE001
        return "error"


def model_summary(m, limit=40):
    out = {}
    for d in m.decls()[:limit]:
        n = d.name()
        if "!" in n and not n.startswith(("lh.", "ret.")):
            pass
        try:
            out[n] = str(m[d])[:200]
        except Exception:  # noqa: BLE001
            pass
    return out


def verify_function(contract, registry, quick=True, cli=True, shard=None):
    """shard=(i, n): discharge only obligations with index % n == i (the
    symbolic execution is repeated in every shard; used to spread functions
    with thousands of path obligations over the worker pool)."""
    res = FnResult(contract)
    t0 = time.time()
    eng = Engine(contract, registry)
    eng.use_cli = cli
    eng.shard = shard
    try:
        fn = eng.load_source()
    except (AttributeError, KeyError, ImportError, OSError, TypeError) as e:
        res.status, res.why = "missing", f"cannot load source: {type(e).__name__}: {e}"
        res.wall = time.time() - t0
        return res
    res.lineno = eng.fileline
    try:
        _run(eng, contract, fn, res)
    except Unsupported as e:
        res.status, res.why = "unsupported", str(e)
    except RecursionError as e:
        res.status, res.why = "unsupported", "recursion limit in encoder"
    except Exception as e:  # noqa: BLE001
        # the encoder tripped over the code: the function is outside the subset it handles gracefully
        # (the bounded monitor of the same contract is the fall-back, as for any unsupported construct)
        res.status, res.why = "unsupported", f"encoder error {type(e).__name__}: {e} [{traceback.format_exc(limit=3).splitlines()[-2].strip() if traceback.format_exc(limit=3).count(chr(10)) > 2 else ''}]"
    res.dropped = sorted(set(eng.dropped))
    res.wall = time.time() - t0
    return res


def fresh_default(srt):
    if srt == Ty.BoolS:
        return z3.BoolVal(False)
    if srt == Ty.RealS:
        return z3.RealVal(0)
    if srt == Ty.IntS:
        return z3.IntVal(0)
    return z3.K(srt.domain(), fresh_default(srt.range()))


def _run(eng, contract, fn, res):
    loops = [x for x in ast.walk(fn) if isinstance(x, (ast.For, ast.While))]
    if contract.nloops is not None and len(loops) != contract.nloops:
        raise Unsupported(f"function has {len(loops)} loops, contract was written for {contract.nloops}")
    st = State()
    # parameters
    a = fn.args
    allargs = list(a.posonlyargs) + list(a.args) + list(a.kwonlyargs)
    defaults = {}
    pos = list(a.posonlyargs) + list(a.args)
    for arg, d in zip(pos[len(pos) - len(a.defaults):], a.defaults):
        defaults[arg.arg] = d
    for arg, d in zip(a.kwonlyargs, a.kw_defaults):
        if d is not None:
            defaults[arg.arg] = d
    if a.vararg or a.kwarg:
        typed_kw = (a.kwarg is None or a.kwarg.arg in contract.params) and (a.vararg is None or a.vararg.arg in contract.params)
        if not contract.params.get("*ok") and not typed_kw:
            raise Unsupported("*args/**kwargs parameter")
        # opaque pass-through values (only forwarded to externals) unless the contract declares a type
        if a.vararg:
            if a.vararg.arg in contract.params:
                # *args with a declared (sequence) type: the tuple of positional arguments
                st.vars[a.vararg.arg] = make_value(eng, st, contract.params[a.vararg.arg], a.vararg.arg)
            else:
                st.vars[a.vararg.arg] = PyConst("<varargs>")
        if a.kwarg:
            if isinstance(contract.params.get(a.kwarg.arg), PyConst):
                # a fixed keyword dictionary (e.g. PyConst({}): the call without keyword overrides)
                st.vars[a.kwarg.arg] = contract.params[a.kwarg.arg]
            elif a.kwarg.arg in contract.params:
                st.vars[a.kwarg.arg] = make_value(eng, st, contract.params[a.kwarg.arg], a.kwarg.arg)
            else:
                st.vars[a.kwarg.arg] = PyConst("<kwargs>")
    for arg in allargs:
        n = arg.arg
        if n == "self" and contract.self_type is not None:
            st.vars[n] = make_value(eng, st, contract.self_type, "self")
        elif n in contract.params:
            st.vars[n] = make_value(eng, st, contract.params[n], n)
        elif n in defaults:
            st.vars[n] = eng.eval(st, defaults[n])
        else:
            raise Unsupported(f"parameter {n} has no declared type")
    for n in contract.params:
        if n != "*ok" and n not in st.vars:
            raise Unsupported(f"contract parameter {n} no longer exists")
    for gname, (gtype, _gexpr) in contract.ghost.items():
        st.vars[gname] = make_value(eng, st, gtype, f"ghost.{gname}")
    eng.setup_spec(st)
    for pre in contract.requires:
        st.assume(eng.eval_spec(st, pre))
    # vacuity: precondition satisfiable
    s = solver_for(eng, st.pc)
    budget(s, 1500, wall=2)
    r = s.check()
    res.pre_sat = str(r)
    if r == z3.unsat:
        raise Unsupported("precondition unsatisfiable (vacuous contract)")
    # lemmas (pure facts over spec functions), proved in order
    for lem in contract.lemmas:
        _prove_lemma(eng, st, lem, res)
    is_generator = any(isinstance(x, (ast.Yield, ast.YieldFrom)) for x in ast.walk(fn))
    if is_generator:
        if not isinstance(contract.returns, Ty.List):
            raise Unsupported("generator function: the contract must declare the list type of the yielded values")
        empty = V(contract.returns, [z3.IntVal(0)] + [z3.K(Ty.IntS, fresh_default(srt)) for srt in contract.returns.e.sorts()])
        st.vars["__yields__"] = eng.alloc(st, empty)
    st.old = (dict(st.vars), st.heap.plain())
    outs = eng.exec_block(st, fn.body)
    npaths = 0
    canary_states = []
    for s2, oc in outs:
        npaths += 1
        if oc == "normal":
            oc = ("return", Ty.mk_none())
        if is_generator and isinstance(oc, tuple) and oc[0] == "return":
            oc = ("return", s2.vars["__yields__"])  # the values yielded, in order
        if isinstance(oc, tuple) and oc[0] == "return":
            val = oc[1]
            if isinstance(contract.returns, Ty.Opt):
                # the declared Optional return type unifies the None path and the value path
                raw = eng.deref(s2, val) if not isinstance(val, PyConst) else val
                if isinstance(raw, (V, PyConst)) and not (isinstance(raw, V) and isinstance(raw.t, Ty.Opt)):
                    val = eng.coerce(raw, contract.returns)
            canary_states.append(s2.clone())
            extra = {"result": val}
            # locals named in `expose` are visible to the prover-only postconditions under the name <local>_final
            # (an existential witness: "there is a set - the one the code built - such that ...")
            for nm in getattr(contract, "expose", ()):
                if nm in s2.vars:
                    extra[nm + "_final"] = s2.vars[nm]
            for j, post in enumerate(list(contract.ensures) + list(contract.ensures_t1)):
                g = eng.eval_spec(s2, post, extra)
                eng.oblige(s2, g, f"postcondition {j}: {post}", "post", None)
        elif isinstance(oc, tuple) and oc[0] == "raise":
            exc = oc[1]
            if exc in contract.raises:
                cond = contract.raises[exc]
                if cond is not True:
                    g = eng.eval_spec(s2, cond)
                    eng.oblige(s2, g, f"{exc} raised only when: {cond}", "raises", None)
            else:
                eng.oblige(s2, z3.BoolVal(False), f"no {exc} escapes", "raises", None)
        else:
            raise Unsupported(f"outcome {oc} at function level")
    if npaths == 0:
        raise Unsupported("no feasible path through the function")
    # discharge.  Obligations with the same label on different paths are first
    # tried as ONE query (disjunction over the paths, common path-condition
    # prefix factored out); only if that is not `unsat` are the paths tried
    # one by one to locate the failing path.
    shard = getattr(eng, "shard", None)
    groups = {}
    order = []
    for oi, ob in enumerate(eng.obligations):
        key = (ob.label, ob.kind)
        if key not in groups:
            groups[key] = []
            order.append(key)
        groups[key].append(ob)
    for gi, key in enumerate(order):
        if shard is not None and gi % shard[1] != shard[0]:
            continue
        obs = groups[key]
        merged_ok = False
        live = [ob for ob in obs if not getattr(ob, "trivial", False)]
        if len(live) > 1:
            t0m = time.time()
            pref = list(live[0].pc)
            for ob in live[1:]:
                n = 0
                while n < len(pref) and n < len(ob.pc) and pref[n].eq(ob.pc[n]):
                    n += 1
                pref = pref[:n]
            merged = z3.Or(*[z3.And(*(ob.pc[len(pref):] + [z3.Not(ob.goal)])) for ob in live])
            sm = solver_for(eng, pref, z3.And(*[ob.goal for ob in live]))
            sm.add(merged)
            if _checked(sm) == z3.unsat:
                merged_ok = True
                dtm = (time.time() - t0m) / len(live)
        nfail = 0
        for ob in obs:
            if getattr(ob, "trivial", False):
                status, backend, dt, detail = "discharged", "syntactic", 0.0, None
            elif merged_ok:
                status, backend, dt, detail = "discharged", "z3", dtm, None
            elif nfail >= 2 and len(live) > 2:
                # the same clause already failed on two paths: keep the run
                # short, the remaining paths are reported as not attempted
                status, backend, dt, detail = "unknown", "skipped", 0.0, "same obligation not discharged on an earlier path; not attempted"
            else:
                status, backend, dt, detail = discharge(eng, ob, quick_ms=(3000 if len(live) > 2 and nfail == 0 and False else None))
                if status != "discharged":
                    nfail += 1
            res.obligations.append(
                {"label": ob.label, "kind": ob.kind, "status": status, "backend": backend, "time_s": dt, "detail": detail, "line": ob.lineno}
            )
    # proofs of the library lemmas this run relied on
    res.obligations.extend(getattr(eng, "library_lemmas", []))
    # canary: 'False' after a returning path must NOT be provable
    if contract.canary and canary_states and (shard is None or shard[0] == 0):
        # some returning path must be consistent (an infeasible path that was not pruned proves nothing)
        res.canary = False
        for cs_ in canary_states[:8]:
            cob = Obligation("canary", "canary", list(cs_.pc), z3.BoolVal(False))
            status, backend, dt, _ = discharge(eng, cob, want_model=False, quick_ms=1500)
            if status != "discharged":
                res.canary = True
                break
    res.fired_calls = getattr(eng, "fired_calls", [])


def _has_quantifier(e):
    seen = set()
    stack = [e]
    while stack:
        x = stack.pop()
        if x.get_id() in seen:
            continue
        seen.add(x.get_id())
        if z3.is_quantifier(x):
            return True
        stack.extend(x.children())
    return False


def discharge_qf(hyps, goal, timeout_ms=None):
    t0 = time.time()
    s = z3.Solver()
    s.set("timeout", Z3_TIMEOUT_MS)
    s.set("rlimit", (timeout_ms * RL_PER_MS) if timeout_ms else Z3_RLIMIT)
    for h in hyps:
        s.add(h)
    s.add(z3.Not(goal))
    r = s.check()
    dt = time.time() - t0
    if r == z3.unsat:
        return "discharged", "z3", dt, None
    if r == z3.sat:
        return "refuted", "z3", dt, model_summary(s.model())
    smt = s.to_smt2()
    for backend, cmd in (
        ("cvc5", ["/usr/bin/cvc5", "--lang=smt2", f"--tlimit={CLI_TIMEOUT_S * 1000}", "--nl-ext-tplanes"]),
        ("z3-4.8", ["/usr/bin/z3", "-smt2", f"-T:{CLI_TIMEOUT_S}"]),
    ):
        rr = run_cli(cmd, smt)
        if rr == "unsat":
            return "discharged", backend, time.time() - t0, None
    return "unknown", "z3", time.time() - t0, str(s.reason_unknown())


def _prove_lemma(eng, st, lem, res):
    """Induction VCs for `forall var in [lo,hi]: claim`."""
    zc = z3.Int(f"ind!{lem.name}!{lem.var}")

    def expr_at(src, term):
        old = dict(eng.bound)
        eng.bound[lem.var] = V(Int, [term])
        om = eng.spec_mode
        eng.spec_mode = True
        try:
            return eng.truth(st, eng.eval(st, eng.parse_expr(src)))
        finally:
            eng.bound = old
            eng.spec_mode = om

    def claim_at(term):
        return expr_at(lem.claim, term)

    om = eng.spec_mode
    eng.spec_mode = True
    try:
        lo = eng.num(eng.eval(st, eng.parse_expr(lem.lo)))
        hi = eng.num(eng.eval(st, eng.parse_expr(lem.hi)))
    finally:
        eng.spec_mode = om
    vcs = []  # (label, hyps, goal)
    if lem.induction == "up":
        vcs.append((f"lemma {lem.name} base", [lo <= hi], claim_at(lo), lo))
        vcs.append((f"lemma {lem.name} step", [lo <= zc, zc < hi, claim_at(zc)], claim_at(zc + 1), zc))
    elif lem.induction == "down":
        vcs.append((f"lemma {lem.name} base", [lo <= hi], claim_at(hi), hi))
        vcs.append((f"lemma {lem.name} step", [lo <= zc, zc < hi, claim_at(zc + 1)], claim_at(zc), zc))
    else:
        vcs.append((f"lemma {lem.name}", [lo <= zc, zc <= hi], claim_at(zc), zc))
    ok = True

    def record(label, r):
        nonlocal ok
        status, backend, dt, detail = r
        res.obligations.append({"label": label, "kind": "lemma", "status": status, "backend": backend, "time_s": dt, "detail": detail, "line": None})
        ok = ok and status == "discharged"

    for label, hyps, goal, at in vcs:
        if lem.via:
            hints = []
            for j, hsrc in enumerate(lem.via):
                h = expr_at(hsrc, at)
                ob = Obligation(f"{label} hint {j}: {hsrc}", "lemma", list(st.pc) + hyps, h)
                record(ob.label, discharge(eng, ob))
                hints.append(h)
            qf_pc = [p for p in st.pc if not _has_quantifier(p)]
            record(label + " (quantifier-free from hints)", discharge_qf(qf_pc + hyps + hints, goal))
        else:
            ob = Obligation(label, "lemma", list(st.pc) + hyps, goal)
            record(label, discharge(eng, ob))
    if ok and getattr(lem, "assume", True):
        st.assume(eng.lemma_formula(st, lem))
        eng.contract.proved_lemmas.append(lem)
