"""rtc: evaluate the *same* sidecar contract text natively (T3).

`check_call(contract, fn, args, kwargs)` runs the real function and evaluates
`requires` before and `ensures` after, with the spec functions compiled from
the same `def` source the prover turns into axioms.  Used (a) as a bounded
monitor over enumerated/random inputs, (b) to find and replay concrete
counterexamples for obligations the prover could not discharge, (c) as a
differential test of the encoder on the unchanged tree.
"""

from __future__ import annotations

import ast
import copy
import functools
import textwrap


class ContractViolation(Exception):
    def __init__(self, kind, clause, detail=""):
        super().__init__(f"{kind}: {clause} {detail}")
        self.kind, self.clause, self.detail = kind, clause, detail


def _forall(*a):
    fn = a[-1]
    nargs = fn.__code__.co_argcount
    import itertools

    if len(a) == 3:
        rng = range(a[0], a[1])
    elif len(a) == 2:
        rng = list(a[0])
    else:
        raise TypeError("unbounded forall needs a universe: use forall(S, lambda k: ...)")
    return all(fn(*ks) for ks in itertools.product(rng, repeat=nargs))


def _exists(*a):
    fn = a[-1]
    nargs = fn.__code__.co_argcount
    import itertools

    rng = range(a[0], a[1]) if len(a) == 3 else list(a[0])
    return any(fn(*ks) for ks in itertools.product(rng, repeat=nargs))


def _prodset(S, size_dict):
    r = 1
    for k in S:
        r *= size_dict[k]
    return r


BASE = {
    "forall": _forall,
    "exists": _exists,
    "implies": lambda a, b: (not a) or bool(b),
    "iff": lambda a, b: bool(a) == bool(b),
    "keys": lambda d: set(d),
    "union": lambda a, b: set(a) | set(b),
    "inter": lambda a, b: set(a) & set(b),
    "minus": lambda a, b: set(a) - set(b),
    "with_key": lambda a, k: set(a) | {k},
    "without_key": lambda a, k: set(a) - {k},
    "empty": lambda: set(),
    "subset": lambda a, b: set(a) <= set(b),
    "prodset": _prodset,
    "count_in": lambda xs, k, t: sum(1 for x in list(xs)[: max(t, 0)] if x == k),
    "colsum": lambda rows, field, t: sum(r[field] for r in list(rows)[: max(t, 0)]),
    "colcount": lambda rows, field, k, t: sum(1 for r in list(rows)[: max(t, 0)] if r[field] == k),
    "get": lambda d, k, default: d.get(k, default),
    "same_ref": lambda a, b: a is b,
    "unopt": lambda x: x,
    "same_node": lambda a, b: a == b,
    "close": lambda a, b: __import__("math").isclose(a, b, rel_tol=1e-9, abs_tol=1e-12),
    "is_neginf": lambda x: x == -float("inf"),
}


class _OldRewriter(ast.NodeTransformer):
    """old(<expr>)  ->  __old__(lambda: <expr>)  evaluated against the
    pre-state copy; fresh_ref(x) -> __fresh__(x)."""

    _depth = 0

    def visit_Lambda(self, node):
        self._depth += 1
        try:
            self.generic_visit(node)
        finally:
            self._depth -= 1
        return node

    def visit_Call(self, node):
        self.generic_visit(node)
        if isinstance(node.func, ast.Name) and node.func.id == "implies" and len(node.args) == 2:
            # lazy implication: the consequent may be undefined when the guard is false
            return ast.copy_location(
                ast.BoolOp(op=ast.Or(), values=[ast.UnaryOp(op=ast.Not(), operand=node.args[0]), node.args[1]]), node
            )
        if isinstance(node.func, ast.Name) and node.func.id == "old":
            src = ast.unparse(node.args[0])
            return ast.copy_location(
                ast.Call(
                    func=ast.Name(id="__old__", ctx=ast.Load()),
                    # lambda-bound names (quantified variables) stay visible inside old()
                    args=[ast.Constant(src)]
                    + ([ast.Call(func=ast.Name(id="locals", ctx=ast.Load()), args=[], keywords=[])] if self._depth else []),
                    keywords=[],
                ),
                node,
            )
        return node


@functools.lru_cache(maxsize=4096)
def _compile(src):
    tree = ast.parse(textwrap.dedent(src).strip(), mode="eval")
    tree = ast.fix_missing_locations(_OldRewriter().visit(tree))
    return compile(tree, "<contract>", "eval")


class Env(dict):
    """Name lookup: explicit bindings -> lets (lazy) -> spec fns -> BASE."""

    def __init__(self, contract, bindings, universe=None, spec_from=None):
        super().__init__(BASE)
        self.contract = contract
        self.update(bindings)
        self.universe = universe
        self["setof"] = lambda fn: {k for k in (self.universe or ()) if fn(k)}

        def forall(*a):
            if len(a) == 1:
                if self.universe is None:
                    raise TypeError("unbounded forall needs a universe")
                return _forall(list(self.universe), a[0])
            return _forall(*a)

        self["forall"] = forall

        def exists(*a):
            if len(a) == 1:
                if self.universe is None:
                    raise TypeError("unbounded exists needs a universe")
                return _exists(list(self.universe), a[0])
            return _exists(*a)

        self["exists"] = exists
        for name, src in contract.spec.items():
            if spec_from is not None:
                # spec functions are closed over the PRE-state (as the prover's
                # axioms are): evaluate them against the pre-state copy
                self[name] = spec_from[name]
                continue
            code = compile(ast.parse(textwrap.dedent(src)), f"<spec {name}>", "exec")
            ns = self
            exec(code, ns)  # defines ns[name]; its globals are this Env (lets resolve lazily)
            self[name] = functools.lru_cache(maxsize=None)(ns[name]) if False else ns[name]

    def __missing__(self, key):
        lets = self.contract.lets
        if key in lets:
            return eval(_compile(lets[key]), self)
        nat = getattr(self.contract, "natives", None)
        if nat and key in nat:
            return nat[key]
        import builtins

        if hasattr(builtins, key):
            return getattr(builtins, key)
        raise KeyError(key)


def evaluate(contract, clause, bindings, universe=None, spec_from=None):
    env = Env(contract, bindings, universe, spec_from=spec_from)
    if "__old__" not in env:
        # no pre-state copy (a precondition, or a let used by one): old(e) is e in the current state
        def __old__(src, loc=None):
            if not loc:
                return eval(_compile(src), env)
            tmp = Env.__new__(Env)
            dict.update(tmp, env)
            tmp.contract, tmp.universe = env.contract, env.universe
            dict.update(tmp, {k: v for k, v in loc.items() if not k.startswith("__")})
            return eval(_compile(src), tmp)

        env["__old__"] = __old__
    return eval(_compile(clause), env)


def bind_varkw(contract, fn, bindings, kwargs):
    """A **name parameter that the contract types is bound to the dict of the extra keyword arguments."""
    import inspect

    try:
        sig = inspect.signature(fn)
    except (TypeError, ValueError):
        return
    for p in sig.parameters.values():
        if p.kind is inspect.Parameter.VAR_KEYWORD and p.name in contract.params:
            named = {q.name for q in sig.parameters.values() if q.kind is not inspect.Parameter.VAR_KEYWORD}
            bindings[p.name] = {k: v for k, v in kwargs.items() if k not in named}


def check_call(contract, fn, args, kwargs=None, argnames=None, universe=None, check_pre=True, self_obj=None, ghost=None, extra=None):
    """Run fn(*args, **kwargs) under the contract.  Returns the result.
    Raises ContractViolation('pre'|'post'|'raises', clause)."""
    kwargs = dict(kwargs or {})
    names = argnames or contract.argnames
    bindings = {}
    pos_names = [n for n in names if n != "self"]
    if self_obj is not None:
        bindings["self"] = self_obj
    for n, a in zip(pos_names, args):
        bindings[n] = a
    bindings.update(kwargs)
    bind_varkw(contract, fn, bindings, kwargs)
    for n, d in contract.defaults.items():
        if n not in bindings:
            bindings[n] = eval(d)
    if extra:
        bindings.update(extra)  # per-case native meanings of the contract's uninterpreted symbols
    for gname, (gtype, gexpr) in contract.ghost.items():
        # a ghost value is either defined by an expression or supplied with the case (harness-provided witness)
        bindings[gname] = ghost[gname] if ghost and gname in ghost else evaluate(contract, gexpr, dict(bindings), universe)
    if check_pre:
        for pre in contract.requires:
            if not evaluate(contract, pre, bindings, universe):
                raise ContractViolation("pre", pre)
    old_bindings = copy.deepcopy(bindings)
    old_env = Env(contract, old_bindings, universe)
    ids_before = {id(v) for v in _reachable(bindings)}

    def __old__(src, loc=None):
        if not loc:
            return eval(_compile(src), old_env)
        # a dict subclass is only consulted through __missing__ when it is the
        # *locals* mapping: evaluate in a child environment that is both
        tmp = Env.__new__(Env)
        dict.update(tmp, old_env)
        tmp.contract, tmp.universe = old_env.contract, old_env.universe
        dict.update(tmp, {k: v for k, v in loc.items() if not k.startswith("__")})
        return eval(_compile(src), tmp)

    try:
        if self_obj is not None:
            result = fn(self_obj, *args, **kwargs)
        else:
            result = fn(*args, **kwargs)
    except Exception as e:  # noqa: BLE001
        name = type(e).__name__
        if name in contract.raises:
            cond = contract.raises[name]
            if cond is True or evaluate(contract, cond, dict(old_bindings), universe):
                return ("raised", name)
            raise ContractViolation("raises", f"{name} raised but not allowed: {cond}", repr(e))
        raise ContractViolation("raises", f"no {name} escapes", repr(e))
    old_env["__old__"] = __old__  # old(...) nested inside old(...) is the same pre-state
    import types as _types

    if isinstance(result, _types.GeneratorType):
        result = list(result)  # a generator is specified by the sequence it yields
    post_bind = dict(bindings)
    post_bind["result"] = result
    old_env["result"] = result  # visible (by value) inside old(...)
    post_bind["__old__"] = __old__
    post_bind["fresh_ref"] = lambda x: id(x) not in ids_before
    for post in list(contract.ensures) + list(contract.ensures_rt):
        try:
            ok = evaluate(contract, post, post_bind, universe, spec_from=old_env)
        except (TypeError, IndexError, KeyError, AttributeError, ValueError) as e:
            # the result does not even have the shape the clause talks about
            raise ContractViolation("post", post, f"clause cannot be evaluated on result={result!r}: {type(e).__name__}: {e}")
        if not ok:
            raise ContractViolation("post", post, f"result={result!r}")
    return result


def _reachable(bindings):
    out = []
    for v in bindings.values():
        out.append(v)
        d = getattr(v, "__dict__", None)
        if d:
            out.extend(d.values())
        for s in getattr(type(v), "__slots__", ()):
            if hasattr(v, s):
                out.append(getattr(v, s))
    return out


def failing_pre(contract, bindings, universe=None):
    """The first precondition clause that is false on these bindings (or None)."""
    for pre in contract.requires:
        if not evaluate(contract, pre, bindings, universe):
            return pre
    return None


def satisfies_pre(contract, bindings, universe=None):
    return all(evaluate(contract, pre, bindings, universe) for pre in contract.requires)
