"""Finite scopes for the bounded tiers (DESIGN.md section 2.5).

Net(n, k, r): all contractions with n tensors over <= k index symbols, tensor
rank <= r (repeats inside a tensor allowed), every output sequence without
repeats over the used symbols; canonical up to first-appearance relabelling.
"""

from __future__ import annotations

import itertools
import random

SYMS = "abcdefghijklmnop"
PRIMES = [2, 3, 5, 7, 11, 13, 17, 19, 23, 29, 31, 37, 41, 43, 47, 53]


def _terms(k, r):
    out = []
    for ln in range(r + 1):
        out.extend(itertools.product(range(k), repeat=ln))
    return out


def _canonical(inputs):
    seen = {}
    for t in inputs:
        for s in t:
            if s not in seen:
                if s != len(seen):
                    return False
                seen[s] = True
    return True


def networks(n, k, r, outputs="all"):
    """Yield (inputs, output) with symbols as letters.  outputs: 'all' (every
    ordered subset of used symbols), 'sets' (one order per subset)."""
    terms = _terms(k, r)
    for inputs in itertools.product(terms, repeat=n):
        if not _canonical(inputs):
            continue
        used = sorted({s for t in inputs for s in t})
        ins = tuple(tuple(SYMS[s] for s in t) for t in inputs)
        for m in range(len(used) + 1):
            if outputs == "all":
                outs = itertools.permutations(used, m)
            else:
                outs = itertools.combinations(used, m)
            for o in outs:
                yield ins, tuple(SYMS[s] for s in o)


def count_networks(n, k, r, outputs="all"):
    return sum(1 for _ in networks(n, k, r, outputs))


def sample_networks(n, k, r, count, rng, outputs="all"):
    """Uniform-ish random sample from Net(n,k,r) (rejection on canonicity is
    avoided by relabelling)."""
    out = []
    for _ in range(count):
        inputs = []
        for _t in range(n):
            ln = rng.randint(0, r)
            inputs.append(tuple(rng.randrange(k) for _ in range(ln)))
        # relabel by first appearance
        m = {}
        for t in inputs:
            for s in t:
                m.setdefault(s, len(m))
        inputs = tuple(tuple(m[s] for s in t) for t in inputs)
        used = sorted(m.values())
        if outputs == "none":
            o = ()
        else:
            mm = rng.randint(0, len(used))
            o = tuple(rng.sample(used, mm))
        out.append((tuple(tuple(SYMS[s] for s in t) for t in inputs), tuple(SYMS[s] for s in o)))
    return out


def features(inputs, output):
    """Structural features of a network (used to define 'non-trivial')."""
    app = {}
    for t in inputs:
        for s in set(t):
            app[s] = app.get(s, 0) + 1
    f = set()
    if any(len(t) != len(set(t)) for t in inputs):
        f.add("repeated")
    if any(len(t) == 0 for t in inputs):
        f.add("scalar")
    if any(c >= 3 for c in app.values()) or any(app[s] >= 2 and s in output for s in app):
        f.add("hyper")
    if any(app[s] == 1 and s not in output for s in app):
        f.add("single-tensor-index")
    if output:
        f.add("output")
    # disconnected?
    n = len(inputs)
    if n > 1:
        comp = list(range(n))

        def find(x):
            while comp[x] != x:
                x = comp[x]
            return x

        for s in app:
            idx = [i for i, t in enumerate(inputs) if s in t]
            for i in idx[1:]:
                comp[find(i)] = find(idx[0])
        if len({find(i) for i in range(n)}) > 1:
            f.add("disconnected")
    return f


def size_dict_primes(inputs, output, offset=0):
    syms = sorted({s for t in inputs for s in t} | set(output))
    return {s: PRIMES[(i + offset) % len(PRIMES)] for i, s in enumerate(syms)}


def size_dicts_small(inputs, output, values=(1, 2), limit=None, rng=None):
    syms = sorted({s for t in inputs for s in t} | set(output))
    allv = list(itertools.product(values, repeat=len(syms)))
    if limit is not None and len(allv) > limit:
        rng = rng or random.Random(0)
        allv = rng.sample(allv, limit)
    for vs in allv:
        yield dict(zip(syms, vs))


# ------------------------------------------------------------------- trees
def all_trees(n):
    """All (2n-3)!! binary trees over leaves 0..n-1, each as an SSA path
    (children before parents)."""
    if n == 1:
        yield ()
        return

    def trees(leaves):
        # returns list of nested tuples
        if len(leaves) == 1:
            yield leaves[0]
            return
        first, rest = leaves[0], leaves[1:]
        # choose the subset that goes with `first` on the left
        for m in range(len(rest)):
            for comb in itertools.combinations(rest, m):
                left = (first,) + comb
                right = tuple(x for x in rest if x not in comb)
                for lt in trees(left):
                    for rt in trees(right):
                        yield (lt, rt)

    for t in trees(tuple(range(n))):
        yield nested_to_ssa(t, n)


def nested_to_ssa(t, n):
    path = []
    nxt = [n]

    def rec(x):
        if isinstance(x, int):
            return x
        a = rec(x[0])
        b = rec(x[1])
        path.append((a, b))
        i = nxt[0]
        nxt[0] += 1
        return i

    rec(t)
    return tuple(path)


def random_tree_ssa(n, rng):
    ids = list(range(n))
    path = []
    nxt = n
    while len(ids) > 1:
        i, j = rng.sample(range(len(ids)), 2)
        a, b = ids[i], ids[j]
        for x in sorted((i, j), reverse=True):
            ids.pop(x)
        path.append((a, b))
        ids.append(nxt)
        nxt += 1
    return tuple(path)


def orders_for(tree, rng, n_random=2):
    """Traversal orders: None, 'dfs', and a few callables (random rankings,
    constant, ties)."""
    nodes = list(tree.children)
    out = [None, "dfs"]
    for _ in range(n_random):
        rank = {nd: rng.random() for nd in nodes}
        out.append(_RankOrder(rank))
    out.append(_RankOrder({nd: 0 for nd in nodes}))
    return out


class _RankOrder:
    """Hashable, picklable order callable."""

    def __init__(self, rank):
        self.rank = rank
        self._key = tuple(sorted((tuple(sorted(k)), v) for k, v in rank.items()))

    def __call__(self, node):
        return self.rank.get(node, 0)

    def __hash__(self):
        return hash(self._key)

    def __eq__(self, other):
        return isinstance(other, _RankOrder) and self._key == other._key

    def __repr__(self):
        return f"rank{list(self.rank.values())}"
