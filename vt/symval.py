"""symval: polynomial-valued array elements (T2, bounded-symbolic).

Every input entry is a distinct variable; the real cotengra code runs on numpy
object arrays of `Poly`; equality with the dense reference as polynomials means
equality for *all* array values at that shape.
"""

from __future__ import annotations

import itertools

import numpy as np


class Poly:
    __slots__ = ("t",)

    def __init__(self, terms=None):
        self.t = terms if terms is not None else {}

    @staticmethod
    def var(i):
        return Poly({(i,): 1})

    @staticmethod
    def const(c):
        return Poly({(): c} if c else {})

    def __add__(self, o):
        if isinstance(o, np.ndarray):
            return NotImplemented
        if not isinstance(o, Poly):
            if o == 0:
                return self
            o = Poly.const(o)
        r = dict(self.t)
        for m, c in o.t.items():
            v = r.get(m, 0) + c
            if v:
                r[m] = v
            else:
                r.pop(m, None)
        return Poly(r)

    __radd__ = __add__

    def __mul__(self, o):
        if isinstance(o, np.ndarray):
            return NotImplemented
        if not isinstance(o, Poly):
            if o == 1:
                return self
            if o == 0:
                return Poly()
            return Poly({m: c * o for m, c in self.t.items()})
        r = {}
        for m1, c1 in self.t.items():
            for m2, c2 in o.t.items():
                m = tuple(sorted(m1 + m2))
                v = r.get(m, 0) + c1 * c2
                if v:
                    r[m] = v
                else:
                    r.pop(m, None)
        return Poly(r)

    __rmul__ = __mul__

    def __neg__(self):
        return Poly({m: -c for m, c in self.t.items()})

    def __sub__(self, o):
        return self + (-o if isinstance(o, Poly) else Poly.const(-o))

    def __eq__(self, o):
        if not isinstance(o, Poly):
            o = Poly.const(o)
        return self.t == o.t

    def __ne__(self, o):
        return not self.__eq__(o)

    def __hash__(self):
        return hash(frozenset(self.t.items()))

    def __repr__(self):
        if not self.t:
            return "0"
        return " + ".join(
            (f"{c}*" if c != 1 else "") + ("*".join(f"x{v}" for v in m) or "1") for m, c in sorted(self.t.items())
        )

    # numpy scalar protocol bits used by autoray / cotengra
    @property
    def shape(self):
        return ()

    @property
    def ndim(self):
        return 0


def make_arrays(inputs, size_dict):
    """One distinct variable per entry of every input array."""
    arrays = []
    c = itertools.count()
    for term in inputs:
        shape = tuple(size_dict[ix] for ix in term)
        a = np.empty(shape, dtype=object)
        for idx in itertools.product(*[range(d) for d in shape]):
            a[idx] = Poly.var(next(c))
        arrays.append(a)
    return arrays


def dense_einsum(inputs, output, arrays, size_dict, fixed=None):
    """Independent reference: sum over all index assignments.  `fixed` maps an
    index to a value (projection); a projected output index keeps a length-1
    axis."""
    fixed = fixed or {}
    inds = sorted({ix for t in inputs for ix in t} | set(output))
    ranges = [([fixed[ix]] if ix in fixed else range(size_dict[ix])) for ix in inds]
    oshape = tuple(1 if ix in fixed else size_dict[ix] for ix in output)
    out = np.empty(oshape, dtype=object)
    for idx in itertools.product(*[range(d) for d in oshape]):
        out[idx] = Poly()
    for vals in itertools.product(*ranges):
        asg = dict(zip(inds, vals))
        p = None
        for t, a in zip(inputs, arrays):
            e = a[tuple(asg[ix] for ix in t)] if t else (a[()] if isinstance(a, np.ndarray) else a)
            p = e if p is None else p * e
        if p is None:
            p = Poly.const(1)
        oidx = tuple(0 if ix in fixed else asg[ix] for ix in output)
        out[oidx] = out[oidx] + p
    return out


def as_array(x):
    if isinstance(x, np.ndarray):
        return x
    a = np.empty((), dtype=object)
    a[()] = x
    return a


def equal(a, b):
    a, b = as_array(a), as_array(b)
    if a.shape != b.shape:
        return False
    return all(x == y for x, y in zip(a.ravel(), b.ravel()))


def first_diff(a, b):
    a, b = as_array(a), as_array(b)
    if a.shape != b.shape:
        return f"shape {a.shape} != {b.shape}"
    for idx in np.ndindex(a.shape):
        if not (a[idx] == b[idx]):
            return f"entry {idx}: got {a[idx]!r}, reference {b[idx]!r}"
    return None


_registered = False


def register_autoray():
    """0-d results of fully-sliced tensors are bare Poly objects: autoray then
    infers a backend named after this module.  Route those calls to numpy on a
    0-d object array (harness side only; no repo code is touched)."""
    global _registered
    if _registered:
        return
    import autoray as ar

    def lift(fn):
        def wrapped(*args, **kwargs):
            args = [as_array(a) if isinstance(a, Poly) else ([as_array(x) if isinstance(x, Poly) else x for x in a] if isinstance(a, (list, tuple)) and any(isinstance(x, Poly) for x in a) else a) for a in args]
            return fn(*args, **kwargs)

        return wrapped

    backend = Poly.__module__.split(".")[0]
    for bk in {backend, Poly.__module__, "vt"}:
        for name in ("reshape", "transpose", "sum", "matmul", "multiply", "stack", "einsum", "tensordot", "array", "abs", "max"):
            ar.register_function(bk, name, lift(getattr(np, name)))
        ar.register_function(bk, "shape", lambda x: ())
    _registered = True
