"""Driver for the proved tier: verify contracts, fall back to the run-time
monitor of the same contract for counterexamples / cross-checks, and feed a
Report."""

from __future__ import annotations

import importlib
import json
import os
import random
import time
import traceback

from .common import Report, pmap, seed, ROOT
from .pyvc.contract import Registry
from .pyvc import verify as VF
from . import rtc

BASELINE = os.path.join(ROOT, "vt", "contracts", "baseline.json")

ENCODING_ASSUMPTIONS = [
    "pyvc: Python ints are mathematical integers; // and % are floor division/modulo and every division site carries the obligation divisor > 0",
    "pyvc: dict/set iteration visits each key exactly once in arbitrary order (ODict: insertion order); the iterated container is not mutated in the loop",
    "pyvc: distinct parameters do not alias unless the contract says so; containers nested inside list/tuple elements have value semantics",
    "pyvc: decorators (lru_cache, cached_node_property, functools.wraps, staticmethod/classmethod), docstrings and `if progbar:` branches are dropped by the extraction",
    "pyvc: partial correctness only (termination is not proved); recursion of spec functions is assumed well-founded (guarded by a canary obligation that must not verify)",
    "pyvc: index labels / strings are abstract keys (z3 Int): only equality (and integer order where the code sorts integer ids) is used",
]


def resolve_target(target):
    modname, qual = target.split(":")
    mod = importlib.import_module(modname)
    obj = mod
    cls = None
    for p in qual.split("."):
        if isinstance(obj, type):
            cls = obj
            obj = obj.__dict__[p]
        else:
            obj = getattr(obj, p)
    while True:
        if isinstance(obj, (staticmethod, classmethod)):
            obj = obj.__func__
        elif hasattr(obj, "__wrapped__"):
            obj = obj.__wrapped__
        else:
            break
    return obj, cls


def run_syntactic(rep, modnames, pid):
    """AST / call-graph obligations (frame and effect clauses)."""
    n = 0
    for m in modnames:
        mod = importlib.import_module(m)
        for s in getattr(mod, "SYNTACTIC", []):
            if pid is not None and pid not in s.props:
                continue
            t0 = time.time()
            try:
                res = s.check()
            except Exception as e:  # noqa: BLE001
                rep.undecided_obligation(f"{s.target} :: {s.what}", f"syntactic analysis could not run: {type(e).__name__}: {e}")
                continue
            dt = (time.time() - t0) / max(1, len(res))
            rep.functions_under_contract.setdefault(s.target, "T1-syntactic (frame/effect clause decided on the AST of the working tree)")
            for label, ok, detail in res:
                n += 1
                rep.add_obligation(s.target, label, "discharged" if ok else "refuted", "ast", dt, detail or None)
                if not ok:
                    # a syntactic clause is sufficient, not necessary: undecided, the
                    # bounded monitor of the same property looks for a failing input
                    rep.undecided_obligation(f"{s.target.split(':')[1]} :: {label}", f"syntactic frame clause no longer holds: {detail}")
    return n


def load_contracts(modnames):
    reg = Registry()
    out = []
    for m in modnames:
        mod = importlib.import_module(m)
        for c in mod.CONTRACTS:
            c.module = m
            reg.add(c)
            out.append(c)
    return reg, out


def _verify_one(item):
    modnames, target, cli = item[:3]
    shard = item[3] if len(item) > 3 else None
    reg, cs = load_contracts(modnames)
    c = reg.by_target[target]
    r = VF.verify_function(c, reg, cli=cli, shard=shard)
    r.target = c.key
    return {
        "target": target,
        "status": r.status,
        "why": r.why,
        "obligations": [{k: v for k, v in o.items()} for o in r.obligations],
        "canary": r.canary,
        "pre_sat": r.pre_sat,
        "dropped": r.dropped,
        "wall": r.wall,
        "fired_calls": getattr(r, "fired_calls", []),
        "shard": shard,
    }


def _monitor_one(item):
    """Run one contract's bounded monitor (in a worker process)."""
    modnames, key, ncases, sd = item
    reg, cs = load_contracts(modnames)
    c = reg.by_target[key]
    try:
        return key, monitor(c, ncases, random.Random(sd)), None
    except Exception as e:  # noqa: BLE001
        return key, None, f"monitor for {c.target}: {type(e).__name__}: {e}\n{traceback.format_exc(limit=5)}"


def monitor(contract, ncases, rng, on_case=None):
    """Run the real function under the run-time contract on generated inputs.
    Returns (evaluated, first_violation_or_None)."""
    if contract.gen is None:
        return 0, None
    fn, cls = resolve_target(contract.target)
    n = 0
    tried = 0
    base_seed = rng.randrange(1 << 30)
    while n < ncases and tried < ncases * 20:
        tried += 1
        case_seed = f"{base_seed}:{tried}"
        case = contract.gen(random.Random(case_seed))
        if case is None:
            continue
        args = case.get("args", ())
        kwargs = case.get("kwargs", {})
        self_obj = case.get("self")
        bindings = {}
        names = [a for a in contract.argnames if a != "self"]
        for nm, a in zip(names, args):
            bindings[nm] = a
        bindings.update(kwargs)
        rtc.bind_varkw(contract, fn, bindings, kwargs)
        bindings.update(case.get("bind", {}))
        if self_obj is not None:
            bindings["self"] = self_obj
        for nm, d in contract.defaults.items():
            bindings.setdefault(nm, eval(d))
        for gname, (gtype, gexpr) in contract.ghost.items():
            bindings[gname] = case["ghost"][gname] if gname in case.get("ghost", {}) else rtc.evaluate(contract, gexpr, dict(bindings), case.get("universe"))
        if not rtc.satisfies_pre(contract, bindings, case.get("universe")):
            if "cleanup" in case:
                case["cleanup"]()
            if getattr(contract, "pre_must_hold", False):
                # the generator builds its inputs through the public API only: every one of them is a
                # reachable state, so a false precondition means the contract's assumption about the
                # rest of the code is wrong (the proof would be vacuous there)
                desc = case.get("describe") or repr((args, kwargs))[:400]
                return n, {"clause": rtc.failing_pre(contract, bindings, case.get("universe")), "kind": "assumed-pre",
                           "detail": "precondition assumed about reachable states is false on an input built through the public API",
                           "input": desc, "case_seed": case_seed, "target": contract.key, "module": contract.module}
            continue
        n += 1
        desc = case.get("describe") or repr((args, kwargs))[:400]
        try:
            rtc.check_call(contract, fn, args, kwargs, universe=case.get("universe"), check_pre=False, self_obj=self_obj, ghost=case.get("ghost"), extra=case.get("bind"))
        except rtc.ContractViolation as cv:
            return n, {"clause": cv.clause, "kind": cv.kind, "detail": cv.detail[:500], "input": desc,
                       "case_seed": case_seed, "target": contract.key, "module": contract.module}
        finally:
            if "cleanup" in case:
                case["cleanup"]()
        if on_case:
            on_case(desc)
    if n == 0:
        raise RuntimeError(f"generator of {contract.target} produced no input satisfying the precondition")
    return n, None


def replay_monitor(body):
    """Re-run a recorded counterexample of a T1 contract on the real code."""
    cx = body["counterexample"]
    reg, cs = load_contracts([cx["module"]])
    c = reg.by_target[cx["target"]]
    fn, cls = resolve_target(c.target)
    case = c.gen(random.Random(cx["case_seed"]))
    try:
        rtc.check_call(c, fn, case.get("args", ()), case.get("kwargs", {}), universe=case.get("universe"), self_obj=case.get("self"), ghost=case.get("ghost"), extra=case.get("bind"))
    except rtc.ContractViolation as cv:
        return False, f"{c.target} violates its contract on {case.get('describe') or case.get('args')}: {cv}"
    return True, f"{c.target} satisfies its contract on the recorded input"


def _died_result(died):
    item, code = died
    return {"target": item[1], "status": "unsupported", "obligations": [], "canary": None, "pre_sat": "unknown", "dropped": [], "wall": 0.0, "fired_calls": [],
            "why": f"the solver process ended without an answer (exit code {code}; memory cap VERIF_Z3_MEM_MB reached)"}


def run_t1(rep: Report, modnames, pid=None, quick=True, monitor_cases=200):
    """Verify every contract in `modnames` that serves property `pid`."""
    reg, cs = load_contracts(modnames)
    cs = [c for c in cs if pid is None or pid in c.props]
    run_syntactic(rep, modnames, pid)
    if any("ast" == o["backend"] for o in rep.obligations):
        a = "frame.py: syntactic clauses (purity, seed threading, copy completeness, thread-keyed state, key coverage) are sufficient conditions checked on the AST; dynamic attribute access (getattr/setattr with computed names, **kwargs forwarding through unknown callables) is not followed"
        if a not in rep.assumptions:
            rep.assumptions.append(a)
    try:
        baseline = json.load(open(BASELINE))
    except (OSError, ValueError):
        baseline = {}
    rng = random.Random(seed() + 7)
    items = []
    for c in cs:
        n = int(getattr(c, "shards", 1) or 1)
        if n > 1:
            items.extend((tuple(modnames), c.key, False, (i, n)) for i in range(n))
        else:
            items.append((tuple(modnames), c.key, False))
    results = {}
    for st, r in pmap(_verify_one, items, chunk=1, fresh=True):
        if st == "died":
            # the solver process ended without an answer (memory cap): undecided, the monitor is the fall-back
            r = _died_result(r)
        elif st != "ok":
            rep.crash(r)
            continue
        prev_r = results.get(r["target"])
        if prev_r is None or r["status"] != "ok" or prev_r["status"] != "ok":
            if prev_r is None or prev_r["status"] == "ok":
                results[r["target"]] = r
            continue
        # merge shards of the same function
        prev_r["obligations"].extend(r["obligations"])
        prev_r["wall"] = max(prev_r["wall"], r["wall"])
        if r["canary"] is not None:
            prev_r["canary"] = r["canary"]
    failed_targets = {t for t, r in results.items() if r["status"] != "ok" or any(o["status"] != "discharged" for o in r["obligations"])}
    monitors = {}
    mitems = [(tuple(modnames), c.key, monitor_cases, rng.randrange(1 << 30)) for c in cs]
    for st, r in pmap(_monitor_one, mitems, chunk=1):
        if st != "ok":
            rep.crash(r)
            continue
        key, res, err = r
        if err is not None:
            monitors[key] = (0, None)
            rep.crash(err)
        else:
            monitors[key] = res
    for c in cs:
        monitors.setdefault(c.key, (0, None))
    # second opinion (CLI solvers on the SMT-LIB dump) only for functions whose
    # z3 verdict was 'unknown' and whose monitor found no concrete failing input
    again = [
        (tuple(modnames), t, True)
        for t, r in results.items()
        if r["status"] == "ok" and monitors.get(t, (0, None))[1] is None and any(o["status"] == "unknown" for o in r["obligations"])
    ]
    for st, r in pmap(_verify_one, again, chunk=1, fresh=True):
        if st == "ok" and r["status"] == "ok":
            results[r["target"]] = r
    for a in ENCODING_ASSUMPTIONS:
        if a not in rep.assumptions:
            rep.assumptions.append(a)
    for c in cs:
        r = results.get(c.key)
        if r is None:
            continue
        for a in c.assumptions:
            if a not in rep.assumptions:
                rep.assumptions.append(f"{c.short}: {a}")
        rep.functions_under_contract[c.key] = "T1 (proved, unbounded) + T3 monitor of the same contract"
        for d in r["dropped"]:
            rep.dropped.append(f"{c.short}: {d}")
        # bounded monitor of the same contract: cross-check of the encoder and
        # source of concrete counterexamples
        nmon, viol = monitors.get(c.key, (0, None))
        rep.count(nmon)
        rep.fired(f"rtc:{c.short}", nmon)
        if r["status"] == "ok":
            if r["canary"] is not None:
                rep.canaries_total += 1
                rep.canaries_refuted += 1 if r["canary"] else 0
                # (after a failed obligation the path condition contains the failed fact as an
                # assumption, so an inconsistent state there says nothing about the contract)
                if not r["canary"] and all(o["status"] == "discharged" for o in r["obligations"]):
                    rep.crash(f"canary of {c.target} verified: contract or encoding assumes false")
            rep.pre_total += 1
            rep.pre_sat += 0 if r["pre_sat"] == "unsat" else 1
            if not r["obligations"]:
                rep.crash(f"{c.target}: zero obligations generated")
            expected = baseline.get(c.key)
            if isinstance(expected, int) and len(r["obligations"]) < 0.6 * expected:
                # vacuity guard: the contract used to generate many more obligations
                rep.crash(f"{c.key}: only {len(r['obligations'])} obligations generated, {expected} recorded on the pinned tree (contract or encoder became vacuous?)")
            bad = []
            for o in r["obligations"]:
                name = f"{c.short} :: {o['label']}"
                rep.add_obligation(c.target, o["label"], o["status"], o["backend"], o["time_s"])
                if o["status"] != "discharged":
                    bad.append(o)
            if bad:
                if viol is not None:
                    sig = f"T1 {c.target} obligation failed [{bad[0]['label'][:160]}]; run-time contract violated: {viol['clause']}"
                    rep.violation(sig, {"function": c.target, "failed_obligations": [b["label"] for b in bad], "counterexample": viol,
                                        "replay": f"bin/check {rep.pid} --replay <this file>"})
                else:
                    for o in bad:
                        name = f"{c.short} :: {o['label']}"
                        if o["status"] == "refuted":
                            sig = f"T1 {c.target} obligation refuted by solver [{o['label'][:200]}]"
                            rep.violation(sig, {"function": c.target, "obligation": o["label"], "solver": o["backend"],
                                                "solver_output": o.get("detail"), "note": "model could not be replayed on the real code by the bounded monitor"},
                                          no_input=True)
                        else:
                            rep.undecided_obligation(name, f"solver answered unknown ({o['backend']}, {o['time_s']:.1f}s); bounded monitor of the same contract passed {nmon} cases")
            elif viol is not None and any(
                reg.get(site.split("@")[0]) is not None and reg.get(site.split("@")[0]).target in failed_targets
                for site in r.get("fired_calls", [])
            ):
                # modular proof: a callee broke *its* contract (reported there)
                pass
            elif viol is not None and viol.get("kind") == "assumed-pre":
                sig = f"T3 {c.target}: assumed precondition is false on a reachable state: {viol['clause']}"
                rep.violation(sig, {"function": c.target, "counterexample": viol})
            elif viol is not None and viol.get("clause") in c.ensures_rt:
                # a clause outside the prover's subset (checked only by the monitor)
                sig = f"T3 {c.target} run-time-only contract clause violated: {viol['clause']}"
                rep.violation(sig, {"function": c.target, "counterexample": viol})
            elif viol is not None:
                # proof went through but the real function violates the contract
                # natively: the encoder disagrees with CPython -> checker bug
                rep.crash(f"encoder/CPython disagreement on {c.target}: proved, yet run-time contract fails: {viol}")
        elif r["status"] in ("unsupported", "missing"):
            # function left the subset: the monitor is the fall-back
            if viol is not None:
                sig = f"T3 {c.target} run-time contract violated: {viol['clause']} (function left the prover's subset: {r['why'][:120]})"
                rep.violation(sig, {"function": c.target, "counterexample": viol})
            else:
                rep.undecided_obligation(f"{c.short} :: <all>", f"function outside the prover's subset ({r['why'][:200]}); bounded monitor passed {nmon} cases")
        else:
            rep.crash(f"{c.target}: {r['why']}")
    return results


def write_baseline_counts(modnames):
    reg, cs = load_contracts(modnames)
    out = {}
    items = [(tuple(modnames), c.key, False) for c in cs]
    for st, r in pmap(_verify_one, items, chunk=1, fresh=True):
        if st == "ok" and r["status"] == "ok":
            out[r["target"]] = len(r["obligations"])
    try:
        cur = json.load(open(BASELINE))
    except (OSError, ValueError):
        cur = {}
    cur.update(out)
    with open(BASELINE, "w") as f:
        json.dump(cur, f, indent=1, sort_keys=True)
    return out
